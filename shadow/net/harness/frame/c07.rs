//! C07 — the RESP parser is total and reads numbers exactly.
use super::*;

macro_rules! n_harness { ($uw:expr, $(#[$m:meta])* fn $n:ident() $b:block) => {
    #[kani::proof]
    #[kani::unwind($uw)]
    #[kani::stub(alloc::fmt::format, format_stub)]
    #[kani::stub(std::string::String::from_utf8_lossy, lossy_stub)]
    $(#[$m])* fn $n() $b
} }
pub(crate) use n_harness;

/// Reference reading of `[sign] digit+ CR` starting at `start` in `b[..len]`, written so that the
/// solver does not have to prove two different multiplier chains equivalent:
/// * `val`: Horner evaluation in *wrapping* `i64`, accumulating negatively for negative numbers —
///   the true value whenever the number is in range (every prefix of an in-range number is in
///   range, so nothing wrapped);
/// * `in_range`: decided without arithmetic, by digit count and lexicographic comparison of the
///   significant digits with "9223372036854775807" / "...808".
/// Returns (well_formed_and_terminated, in_range, val, index of the CR).
fn ref_integer<const N: usize>(b: &[u8; N], len: usize, start: usize) -> (bool, bool, i64, usize) {
    const MAXP: [u8; 19] = *b"9223372036854775807";
    const MAXN: [u8; 19] = *b"9223372036854775808";
    // a state machine over CONCRETE buffer indices (symbolic indices make every step a mux)
    let mut neg = false;
    let mut val: i64 = 0;
    let mut ndig: usize = 0; // digits seen
    let mut sig: usize = 0; // significant digits seen (after leading zeros)
    let mut cmp: i8 = 0; // lexicographic comparison of the significant digits with the limit
    let mut state: u8 = 0; // 0 = before sign/first digit, 1 = in digits, 2 = stopped
    let mut stop = len; // index of the first byte after the digits
    let mut j = 0;
    while j < N {
        if j >= start && j < len && state != 2 {
            let c = b[j];
            if state == 0 && (c == b'-' || c == b'+') {
                neg = c == b'-';
                state = 1;
            } else if c >= b'0' && c <= b'9' {
                let d = (c - b'0') as i64;
                val = if neg { val.wrapping_mul(10).wrapping_sub(d) } else { val.wrapping_mul(10).wrapping_add(d) };
                if sig > 0 || d != 0 {
                    if sig < 19 && cmp == 0 {
                        let lim = if neg { MAXN[sig] } else { MAXP[sig] };
                        if c < lim {
                            cmp = -1;
                        } else if c > lim {
                            cmp = 1;
                        }
                    }
                    sig += 1;
                }
                ndig += 1;
                state = 1;
            } else {
                state = 2;
                stop = j;
            }
        }
        j += 1;
    }
    let wf = ndig > 0 && stop < len && b[stop] == b'\r';
    let in_range = sig < 19 || (sig == 19 && cmp <= 0);
    (wf, in_range, val, stop)
}

/// Totality: fully symbolic bytes, length and start offset; no panic (index, arithmetic
/// overflow — Kani's automatic checks), cursor stays inside the buffer.
fn get_integer_total<const N: usize>() {
    let b: [u8; N] = kani::any();
    let len: usize = kani::any();
    kani::assume(len >= 1 && len <= N);
    // the readers are entered after `get_byte` consumed the type byte: 1 <= pos <= len
    let pos: usize = kani::any();
    kani::assume(pos >= 1 && pos <= len);
    let mut c = Cursor::new(&b[..len]);
    c.set_position(pos as u64);
    let r = get_integer(&mut c);
    assert!(c.position() as usize <= len, "cursor left the buffer");
    if r.is_ok() {
        assert!(c.position() as usize >= pos + 3, "accepted fewer than digit CR LF bytes");
    }
}

n_harness! { 26,
/// `get_integer` totality, N = 24.
fn c07_get_integer_total_24() { get_integer_total::<24>() } }

n_harness! { 46,
/// `get_integer` totality, N = 44 (>= 19 bytes of prefix + sign + 20 digits + CR LF).
fn c07_get_integer_total_44() { get_integer_total::<44>() } }

/// Exactness at a CONCRETE start offset `POS` (one instance per offset; the offsets straddle the
/// absolute index 18 that the unchecked-digit budget used to refer to).  Two families keep the
/// multiplier chains short enough for SAT (the unrestricted 20-digit equivalence query does not
/// finish in 30 min — measured):
/// * `FIXED == 0`: at most 7 digits, everything from `POS` on symbolic;
/// * `FIXED == 16`: a symbolic sign, the 16 concrete digits "9223372036854775" (the common prefix
///   of i64::MAX and |i64::MIN|), then fully symbolic bytes: every 17..=20-digit number around
///   both range limits.
fn get_integer_exact<const N: usize, const POS: usize, const FIXED: usize>() {
    const PFX: [u8; 16] = *b"9223372036854775";
    let mut b: [u8; N] = kani::any();
    if FIXED > 0 {
        kani::assume(b[POS] == b'+' || b[POS] == b'-');
        let mut i = 0;
        while i < FIXED {
            b[POS + 1 + i] = PFX[i];
            i += 1;
        }
    } else {
        // at most 7 digits (after an optional sign): the byte at POS + 8 is not a digit
        kani::assume(!(b[POS + 8] >= b'0' && b[POS + 8] <= b'9'));
    }
    let len: usize = kani::any();
    kani::assume(len >= POS && len <= N);
    let mut c = Cursor::new(&b[..len]);
    c.set_position(POS as u64);
    let r = get_integer(&mut c);
    let (wf, in_range, val, cr) = ref_integer::<N>(&b, len, POS);
    match r {
        Ok(x) => {
            assert!(wf, "get_integer accepted bytes that are not [sign] digit+ CR");
            assert!(in_range, "get_integer accepted a number outside the i64 range");
            assert!(x == val, "get_integer returned a value different from the digits written");
            assert!(c.position() as usize == cr + 2, "get_integer consumed a wrong number of bytes");
            assert!(cr + 2 <= len, "get_integer advanced past the end of the buffer");
            if FIXED > 0 {
                kani::cover!(x == i64::MAX, "i64::MAX accepted");
                kani::cover!(x == i64::MIN, "i64::MIN accepted");
            } else {
                kani::cover!(x == -1234567, "a 7-digit negative number accepted");
            }
        }
        Err(Error::Incomplete) => {}
        Err(_) => {
            // a well-formed, terminated, in-range number (with room for its LF) must be accepted
            if wf && cr + 1 < len && in_range {
                assert!(false, "get_integer rejected a well-formed in-range number");
            }
            if FIXED > 0 {
                kani::cover!(wf && !in_range, "an out-of-range number rejected");
            }
        }
    }
}
n_harness! { 14, fn c07_int_exact_small_p01() { get_integer_exact::<12, 1, 0>() } }
n_harness! { 32, fn c07_int_exact_small_p19() { get_integer_exact::<30, 19, 0>() } }
n_harness! { 37, fn c07_int_exact_small_p24() { get_integer_exact::<35, 24, 0>() } }
n_harness! { 26, fn c07_int_exact_limit_p01() { get_integer_exact::<24, 1, 16>() } }
n_harness! { 43, fn c07_int_exact_limit_p18() { get_integer_exact::<41, 18, 16>() } }
n_harness! { 44, fn c07_int_exact_limit_p19() { get_integer_exact::<42, 19, 16>() } }
n_harness! { 49, fn c07_int_exact_limit_p24() { get_integer_exact::<47, 24, 16>() } }

fn get_line_contract<const N: usize>() {
    let b: [u8; N] = kani::any();
    let len: usize = kani::any();
    kani::assume(len >= 1 && len <= N);
    let pos: usize = kani::any();
    kani::assume(pos >= 1 && pos <= len);
    let mut c = Cursor::new(&b[..len]);
    c.set_position(pos as u64);
    match get_line(&mut c) {
        Ok(l) => {
            let end = pos + l.len();
            assert!(end + 2 <= len, "get_line consumed past the end");
            assert!(c.position() as usize == end + 2);
            assert!(b[end] == b'\r');
            // the returned bytes are exactly b[pos..end] and contain neither CR nor LF
            let i: usize = kani::any();
            kani::assume(i < l.len());
            assert!(l[i] == b[pos + i]);
            assert!(l[i] != b'\r' && l[i] != b'\n', "line contains CR or LF");
        }
        Err(_) => {
            assert!(c.position() as usize == pos, "cursor moved on error");
        }
    }
}
n_harness! { 18, fn c07_get_line_16() { get_line_contract::<16>() } }

n_harness! { 10,
/// `get_byte`, `peek_byte`, `skip`: never panic, cursor stays within the buffer.
fn c07_small_readers() {
    let b: [u8; 8] = kani::any();
    let len: usize = kani::any();
    kani::assume(len <= 8);
    let pos: usize = kani::any();
    kani::assume(pos <= len);
    let mut c = Cursor::new(&b[..len]);
    c.set_position(pos as u64);
    let which: u8 = kani::any();
    if which == 0 {
        match get_byte(&mut c) {
            Ok(x) => assert!(pos < len && x == b[pos] && c.position() as usize == pos + 1),
            Err(e) => assert!(pos == len && e == Error::Incomplete),
        }
    } else if which == 1 {
        match peek_byte(&c) {
            Ok(x) => assert!(pos < len && x == b[pos] && c.position() as usize == pos),
            Err(e) => assert!(pos == len && e == Error::Incomplete),
        }
    } else {
        let n: usize = kani::any();
        match skip(&mut c, n) {
            Ok(()) => assert!(n <= len - pos && c.position() as usize == pos + n),
            Err(e) => assert!(n > len - pos && e == Error::Incomplete && c.position() as usize == pos),
        }
    }
} }

/// Whole-function totality and check/parse agreement on a fully symbolic buffer of N bytes:
/// neither function panics; if `check` accepts `n` bytes then `parse` on the same buffer (what
/// `Connection::parse_frame` does) does not succeed at a position other than `n`.
fn check_parse_contract<const N: usize, const STARS: usize>() {
    let b: [u8; N] = kani::any();
    let len: usize = kani::any();
    kani::assume(len <= N);
    // at most STARS array headers: this makes the recursion bound of the run true
    let mut stars = 0;
    let mut i = 0;
    while i < N {
        if b[i] == b'*' {
            stars += 1;
        }
        i += 1;
    }
    kani::assume(stars <= STARS);
    let mut c = Cursor::new(&b[..len]);
    let r = Frame::check(&mut c);
    let n = c.position();
    assert!(n as usize <= len, "check moved the cursor past the end");
    if r.is_ok() {
        c.set_position(0);
        let p = Frame::parse(&mut c);
        if p.is_ok() {
            assert!(c.position() == n, "parse succeeded with a length different from the one check accepted");
        }
        kani::cover!(p.is_ok() && b[0] == b'*', "an array was checked and parsed");
        kani::cover!(p.is_ok() && b[0] == b'$', "a bulk string / null was checked and parsed");
        std::mem::forget(p);
    }
    std::mem::forget(r);
}
n_harness! { 9, fn c07_check_parse_6() { check_parse_contract::<6, 1>() } }
n_harness! { 11, fn c07_check_parse_8() { check_parse_contract::<8, 1>() } }

/// check/parse agreement and totality for NON-ARRAY frames: the type byte is concrete (one harness
/// instance per type), the remaining N-1 bytes are fully symbolic, the buffer length is the concrete
/// N (one instance per length).  Neither function panics; if `check` accepts `n` bytes then `parse`
/// of the same buffer does not succeed at a position other than `n`.
fn agree_contract<const N: usize, const T: u8>() {
    let mut b: [u8; N] = kani::any();
    b[0] = T;
    let mut c = Cursor::new(&b[..N]);
    let r = Frame::check(&mut c);
    let n = c.position();
    assert!(n as usize <= N, "check moved the cursor past the end");
    let ok = r.is_ok();
    std::mem::forget(r);
    if ok {
        c.set_position(0);
        let p = Frame::parse(&mut c);
        if p.is_ok() {
            assert!(c.position() == n, "parse succeeded with a length different from the one check accepted");
        }
        kani::cover!(p.is_ok(), "parse returned a frame");
        std::mem::forget(p);
    }
    kani::cover!(ok, "check accepted a frame");
}
n_harness! { 12, fn c07_agree_plus_3() { agree_contract::<3, b'+'>() } }
n_harness! { 12, fn c07_agree_plus_5() { agree_contract::<5, b'+'>() } }
n_harness! { 12, fn c07_agree_minus_4() { agree_contract::<4, b'-'>() } }
n_harness! { 12, fn c07_agree_colon_4() { agree_contract::<4, b':'>() } }
n_harness! { 12, fn c07_agree_colon_6() { agree_contract::<6, b':'>() } }
n_harness! { 12, fn c07_agree_dollar_5() { agree_contract::<5, b'$'>() } }
n_harness! { 12, fn c07_agree_dollar_7() { agree_contract::<7, b'$'>() } }
n_harness! { 12, fn c07_agree_dollar_8() { agree_contract::<8, b'$'>() } }

/// `parse` alone (no prior `check`) on a fully symbolic buffer: no panic, no abort-class
/// allocation (the announced array length is symbolic up to i64::MAX).
fn parse_alone_contract<const N: usize>() {
    let b: [u8; N] = kani::any();
    let len: usize = kani::any();
    kani::assume(len <= N);
    let mut stars = 0;
    let mut i = 0;
    while i < N {
        if b[i] == b'*' {
            stars += 1;
        }
        i += 1;
    }
    kani::assume(stars <= 1);
    let mut c = Cursor::new(&b[..len]);
    let p = Frame::parse(&mut c);
    assert!(c.position() as usize <= len, "parse moved the cursor past the end");
    std::mem::forget(p);
}
n_harness! { 9, fn c07_parse_alone_6() { parse_alone_contract::<6>() } }

n_harness! { 45,
/// Nesting depth is capped by a constant: 40 nested `*1\r\n` headers (concrete, so symex stays
/// linear) followed by 4 symbolic bytes must be rejected by `check` and by `parse`, and CBMC's
/// recursion unwinding assertion (bound 45) shows that neither function recursed deeper than that.
/// An implementation without a cap accepts `...:1\r\n` here (assertion fails); the native replay
/// then runs 200 000 levels on a 2 MiB stack.
fn c07_depth() {
    const K: usize = 40;
    let mut b = [0u8; K * 4 + 4];
    let mut i = 0;
    while i < K {
        b[4 * i] = b'*';
        b[4 * i + 1] = b'1';
        b[4 * i + 2] = b'\r';
        b[4 * i + 3] = b'\n';
        i += 1;
    }
    let tail: [u8; 4] = kani::any();
    let mut j = 0;
    while j < 4 {
        b[4 * K + j] = tail[j];
        j += 1;
    }
    let mut c = Cursor::new(&b[..]);
    let r = Frame::check(&mut c);
    kani::cover!(r == Err(Error::BadEncoding), "nesting beyond the cap is rejected");
    assert!(r.is_err(), "an array nested 40 levels deep was accepted by check");
    let mut c2 = Cursor::new(&b[..]);
    let p = Frame::parse(&mut c2);
    assert!(p.is_err(), "an array nested 40 levels deep was accepted by parse");
    std::mem::forget(p);
    std::mem::forget(r);
} }
