//! Network-parser (N) harnesses: child module of the verbatim copy of `src/net/frame.rs`, so the
//! private readers (`get_integer`, `get_line`, `get_byte`, `peek_byte`, `skip`) are called directly.
#![allow(dead_code, unused_imports)]
use super::*;

/// Stubs (message text only; the slice expressions passed to them are still evaluated and checked).
pub(crate) fn format_stub(_a: std::fmt::Arguments<'_>) -> String {
    String::new()
}
pub(crate) fn lossy_stub(_v: &[u8]) -> std::borrow::Cow<'_, str> {
    std::borrow::Cow::Borrowed("")
}

mod c07;
mod c08;
mod probe;
