//! C03 (process kill), C09 (power loss under sync=always), C20 (failed disk operation),
//! C12 (hint files only accelerate), C17 (closed handle), C18 (merge decision predicates).
use super::sc::*;
use super::*;

// C03 / C09: one instance per CONCRETE kill point (a symbolic kill point makes the directory handed
// to the recovery symbolic and CBMC runs out of memory at 14 GB — measured).  `steps_*` report the
// number of file-system calls of each shape through covers, so that the table of instances can
// be checked to span the whole run.
macro_rules! crash_instances { ($shape:ident, $sync:expr, $pl:expr, $tag:expr; $($name:ident = $k:expr),* $(,)?) => { $(
    s_harness! { fn $name() { $shape($k, $sync, $pl, $tag) } }
)* } }
crash_instances! { crash_shape_b, false, false, true;
    c03_b_k00 = 0, c03_b_k01 = 1, c03_b_k02 = 2, c03_b_k03 = 3, c03_b_k04 = 4, c03_b_k05 = 5, c03_b_k06 = 6, c03_b_k07 = 7, c03_b_k08 = 8, c03_b_k09 = 9, c03_b_k10 = 10 }
crash_instances! { crash_shape_c, false, false, true;
    c03_c_k04 = 4, c03_c_k05 = 5, c03_c_k06 = 6, c03_c_k07 = 7, c03_c_k08 = 8, c03_c_k09 = 9, c03_c_k10 = 10, c03_c_k11 = 11, c03_c_k12 = 12, c03_c_k13 = 13, c03_c_k14 = 14, c03_c_k15 = 15, c03_c_k16 = 16, c03_c_k17 = 17, c03_c_k18 = 18, c03_c_k19 = 19, c03_c_k20 = 20, c03_c_k21 = 21, c03_c_k22 = 22, c03_c_k23 = 23, c03_c_k24 = 24, c03_c_k25 = 25, c03_c_k26 = 26 }
crash_instances! { crash_shape_a, false, false, true;
    c03_a_k06 = 6, c03_a_k07 = 7, c03_a_k08 = 8, c03_a_k09 = 9, c03_a_k10 = 10, c03_a_k11 = 11, c03_a_k12 = 12, c03_a_k13 = 13, c03_a_k14 = 14, c03_a_k15 = 15, c03_a_k16 = 16, c03_a_k17 = 17, c03_a_k18 = 18, c03_a_k19 = 19, c03_a_k20 = 20, c03_a_k21 = 21, c03_a_k22 = 22, c03_a_k23 = 23, c03_a_k24 = 24, c03_a_k25 = 25, c03_a_k26 = 26, c03_a_k27 = 27, c03_a_k28 = 28 }
crash_instances! { crash_shape_b, true, true, false;
    c09_b_k02 = 2, c09_b_k03 = 3, c09_b_k04 = 4, c09_b_k05 = 5, c09_b_k06 = 6, c09_b_k07 = 7, c09_b_k08 = 8, c09_b_k09 = 9, c09_b_k10 = 10, c09_b_k11 = 11, c09_b_k12 = 12, c09_b_k13 = 13 }
crash_instances! { crash_shape_c, true, true, false;
    c09_c_k06 = 6, c09_c_k08 = 8, c09_c_k10 = 10, c09_c_k12 = 12, c09_c_k14 = 14, c09_c_k16 = 16, c09_c_k18 = 18, c09_c_k20 = 20, c09_c_k22 = 22, c09_c_k24 = 24, c09_c_k26 = 26, c09_c_k28 = 28, c09_c_k30 = 30 }
crash_instances! { crash_shape_a, true, true, false;
    c09_a_k10 = 10, c09_a_k12 = 12, c09_a_k14 = 14, c09_a_k16 = 16, c09_a_k18 = 18, c09_a_k20 = 20, c09_a_k22 = 22, c09_a_k24 = 24, c09_a_k26 = 26, c09_a_k28 = 28, c09_a_k30 = 30, c09_a_k32 = 32 }

crash_instances! { crash_shape_d, false, false, true;
    c03_d_k08 = 8, c03_d_k09 = 9, c03_d_k10 = 10, c03_d_k11 = 11, c03_d_k12 = 12, c03_d_k13 = 13, c03_d_k14 = 14, c03_d_k15 = 15, c03_d_k16 = 16, c03_d_k17 = 17, c03_d_k18 = 18, c03_d_k19 = 19, c03_d_k20 = 20, c03_d_k21 = 21, c03_d_k22 = 22, c03_d_k23 = 23, c03_d_k24 = 24, c03_d_k25 = 25, c03_d_k26 = 26 }

/// Number of file-system calls of each crash shape (reported through covers).
macro_rules! steps_of { ($name:ident, $shape:ident, $sync:expr) => {
    s_harness! { fn $name() {
        $shape(0, $sync, false, true);
        let n = mfs::__fs().steps;
        kani::cover!(n < 8, "steps < 8");
        kani::cover!(n >= 8 && n < 12, "8 <= steps < 12");
        kani::cover!(n >= 12 && n < 16, "12 <= steps < 16");
        kani::cover!(n >= 16 && n < 20, "16 <= steps < 20");
        kani::cover!(n >= 20 && n < 24, "20 <= steps < 24");
        kani::cover!(n >= 24 && n < 28, "24 <= steps < 28");
        kani::cover!(n >= 28 && n < 34, "28 <= steps < 34");
        kani::cover!(n >= 34, "steps >= 34");
        kani::cover!(n % 4 == 0, "steps % 4 == 0");
        kani::cover!(n % 4 == 1, "steps % 4 == 1");
        kani::cover!(n % 4 == 2, "steps % 4 == 2");
        kani::cover!(n % 4 == 3, "steps % 4 == 3");
    } }
} }
steps_of!(steps_a, crash_shape_a, false);
steps_of!(steps_b, crash_shape_b, false);
steps_of!(steps_c, crash_shape_c, false);
steps_of!(steps_sync_b, crash_shape_b, true);
steps_of!(steps_sync_c, crash_shape_c, true);

// C20: one fault at a symbolic call, symbolic mode (error / short write then error)
s_harness! { fn c20_fault_a() { fault_shape_a(false) } }
s_harness! { fn c20_fault_b() { fault_shape_b(false) } }
s_harness! { fn c20_fault_sync_a() { fault_shape_a(true) } }

// C12: shapes with merges, then recovery with and without the hint files
s_harness! { fn c12_shape_2() { shape_2::<CHK_HINT>() } }
s_harness! { fn c12_shape_4() { shape_4::<CHK_HINT>() } }
s_harness! { fn c12_shape_5() { shape_5::<CHK_HINT>() } }
s_harness! { fn c12_shape_6() { shape_6::<CHK_HINT>() } }

s_harness! {
/// C17 (first clause): after `Handle::close` (what `Drop for Bitcask` does) every operation through
/// a handle — inherent methods and the `KeyValueStorage` trait — fails with `Error::Closed` and
/// issues no file-system call; the directory can be opened again at once with active id max+1.
fn c17_closed() {
    mfs::__preexisting(dslot(0));
    let v: u8 = kani::any();
    lay_data(dslot(0), 0, K[0], Some(v));
    let Store { ctx, w, r } = open_store(mk_conf_thr(u64::MAX, 2, false, T_ALL));
    let conc: usize = kani::any();
    kani::assume(conc <= 1);
    let readers = Arc::new(ArrayQueue::new(1));
    let _ = readers.push(r);
    let h = Handle { ctx, writer: Arc::new(Mutex::new(w)), readers };
    // open handles work
    let g = must(h.get(kb(K[0])));
    assert!(v1(&g) == Some(v));
    h.close();
    let steps = mfs::__fs().steps;
    let which: u8 = kani::any();
    let closed = match which {
        0 => matches!(h.put(kb(K[0]), kb(1)), Err(Error::Closed)),
        1 => matches!(h.delete(kb(K[0])), Err(Error::Closed)),
        2 => matches!(h.get(kb(K[0])), Err(Error::Closed)),
        3 => matches!(h.merge(), Err(Error::Closed)),
        4 => matches!(h.sync(), Err(Error::Closed)),
        5 => matches!(KeyValueStorage::set(&h, kb(K[1]), kb(2)), Err(Error::Closed)),
        6 => matches!(KeyValueStorage::del(&h, kb(K[0])), Err(Error::Closed)),
        _ => matches!(KeyValueStorage::get(&h, kb(K[0])), Err(Error::Closed)),
    };
    assert!(closed, "[C17] an operation on a closed store did not fail with Error::Closed");
    assert!(mfs::__fs().steps == steps, "[C17] an operation on a closed store touched the disk");
    let (kd, st, active) = must(rebuild_storage("d"));
    assert!(active == 2, "[C17] reopening after close does not continue with id max+1");
    assert!(read_via(&kd, K[0]) == Some(Some(v)), "[C17] contents changed by operations on a closed store");
    std::mem::forget((kd, st, h));
} }

s_harness! {
/// C18 (decision logic only): the real `Context::can_merge` over two files with SYMBOLIC counters,
/// symbolic triggers, policy and clock hour equals an independently written reference predicate
/// (same IEEE-754 division and comparison); `fragmentation()` stays in [0,1] and never divides by 0.
fn c18_can_merge() {
    let mut conf = mk_conf(u64::MAX, 0, false);
    let pol: u8 = kani::any();
    let (start, end): (u32, u32) = (kani::any(), kani::any());
    kani::assume(start < 24 && end < 24);
    conf.merge.policy = match pol {
        0 => MergePolicy::Never,
        1 => MergePolicy::Always,
        _ => MergePolicy::Window { start, end },
    };
    let tf: f64 = kani::any();
    kani::assume(tf >= 0.0 && tf <= 1.0);
    let td: u64 = kani::any();
    conf.merge.triggers.fragmentation = tf;
    conf.merge.triggers.dead_bytes = td;
    let hour: u32 = kani::any();
    kani::assume(hour < 24);
    unsafe { chrono::NOW_HOUR = hour };
    let stats: DashMap<u64, LogStatistics> = DashMap::default();
    let n: usize = kani::any();
    kani::assume(n <= 2);
    let mut want = false;
    let mut i = 0;
    while i < 2 {
        if i < n {
            let (l, d, db): (u64, u64, u64) = (kani::any(), kani::any(), kani::any());
            kani::assume(l <= 1 << 40 && d <= 1 << 40);
            let st = LogStatistics { live_keys: l, dead_keys: d, dead_bytes: db };
            let fr = st.fragmentation();
            assert!(fr >= 0.0 && fr <= 1.0, "[C18] fragmentation outside [0,1]");
            let r = if d == 0 { 0.0 } else { (d as f64) / ((d as f64) + (l as f64)) };
            if db > td || r > tf {
                want = true;
            }
            stats.insert(i as u64, st);
        }
        i += 1;
    }
    let ctx = Context { conf, keydir: DashMap::default(), stats, closed: AtomicCell::new(false) };
    let got = ctx.can_merge();
    let expect = match pol {
        0 => false,
        1 => want,
        _ => want && hour >= start && hour <= end,
    };
    assert!(got == expect, "[C18] can_merge disagrees with the configured policy / triggers");
    kani::cover!(got && pol >= 2, "a merge is due inside the window");
    kani::cover!(!got && pol == 1 && n == 2, "no trigger exceeded under policy always");
    std::mem::forget(ctx);
} }

s_harness! {
/// C18: the real `fileids_to_merge` selects exactly the files meeting a threshold (dead bytes,
/// fragmentation, small file), closed towards older files (789eab8), for symbolic counters,
/// symbolic thresholds and symbolic file lengths.
fn c18_selection() {
    let mut conf = mk_conf(u64::MAX, 0, false);
    let tf: f64 = kani::any();
    kani::assume(tf >= 0.0 && tf <= 1.0);
    let (td, ts): (u64, u64) = (kani::any(), kani::any());
    conf.merge.thresholds.fragmentation = tf;
    conf.merge.thresholds.dead_bytes = td;
    conf.merge.thresholds.small_file = ts;
    let stats: DashMap<u64, LogStatistics> = DashMap::default();
    let mut sel = [false; 3];
    let mut id = 0;
    while id < 3 {
        mfs::__preexisting(dslot(id));
        let len: usize = kani::any();
        kani::assume(len <= mfs::FCAP);
        mfs::__fs().inodes[dslot(id)].len = len;
        let (l, d, db): (u64, u64, u64) = (kani::any(), kani::any(), kani::any());
        kani::assume(l <= 1 << 40 && d <= 1 << 40);
        let st = LogStatistics { live_keys: l, dead_keys: d, dead_bytes: db };
        sel[id] = db > td || st.fragmentation() > tf || (len as u64) < ts;
        stats.insert(id as u64, st);
        id += 1;
    }
    // closure towards older files
    let want = [sel[0] || sel[1] || sel[2], sel[1] || sel[2], sel[2]];
    let ctx = Context { conf, keydir: DashMap::default(), stats, closed: AtomicCell::new(false) };
    let got = must(ctx.fileids_to_merge("d"));
    let mut id = 0;
    while id < 3 {
        assert!(got.contains(&(id as u64)) == want[id], "[C18] fileids_to_merge selects a different set than the thresholds (closed towards older files) prescribe");
        id += 1;
    }
    kani::cover!(want[0] && !want[2], "an older file is merged while the newest is not");
    std::mem::forget((ctx, got));
} }
