//! C03 (process kill), C09 (power loss under sync=always), C20 (failed disk operation),
//! C12 (hint files only accelerate), C17 (closed handle), C18 (merge decision predicates).
use super::sc::*;
use super::*;

// C03 / C09: one instance per CONCRETE kill point (a symbolic kill point makes the directory handed
// to the recovery symbolic and CBMC runs out of memory at 14 GB — measured).  `steps_*` report the
// number of file-system calls of each shape through covers, so that the table of instances can
// be checked to span the whole run.
macro_rules! crash_instances { ($shape:ident, $sync:expr, $pl:expr, $tag:expr; $($name:ident = $k:expr),* $(,)?) => { $(
    s_harness! { fn $name() { $shape($k, $sync, $pl, $tag) } }
)* } }
crash_instances! { crash_shape_b, false, false, true;
    c03_b_k00 = 0, c03_b_k01 = 1, c03_b_k02 = 2, c03_b_k03 = 3, c03_b_k04 = 4, c03_b_k05 = 5, c03_b_k06 = 6, c03_b_k07 = 7, c03_b_k08 = 8, c03_b_k09 = 9, c03_b_k10 = 10 }
crash_instances! { crash_shape_c, false, false, true;
    c03_c_k04 = 4, c03_c_k05 = 5, c03_c_k06 = 6, c03_c_k07 = 7, c03_c_k08 = 8, c03_c_k09 = 9, c03_c_k10 = 10, c03_c_k11 = 11, c03_c_k12 = 12, c03_c_k13 = 13, c03_c_k14 = 14, c03_c_k15 = 15, c03_c_k16 = 16, c03_c_k17 = 17, c03_c_k18 = 18, c03_c_k19 = 19, c03_c_k20 = 20, c03_c_k21 = 21, c03_c_k22 = 22, c03_c_k23 = 23, c03_c_k24 = 24, c03_c_k25 = 25, c03_c_k26 = 26 }
crash_instances! { crash_shape_a, false, false, true;
    c03_a_k06 = 6, c03_a_k07 = 7, c03_a_k08 = 8, c03_a_k09 = 9, c03_a_k10 = 10, c03_a_k11 = 11, c03_a_k12 = 12, c03_a_k13 = 13, c03_a_k14 = 14, c03_a_k15 = 15, c03_a_k16 = 16, c03_a_k17 = 17, c03_a_k18 = 18, c03_a_k19 = 19, c03_a_k20 = 20, c03_a_k21 = 21, c03_a_k22 = 22, c03_a_k23 = 23, c03_a_k24 = 24, c03_a_k25 = 25, c03_a_k26 = 26, c03_a_k27 = 27, c03_a_k28 = 28 }
crash_instances! { crash_shape_b, true, true, false;
    c09_b_k02 = 2, c09_b_k03 = 3, c09_b_k04 = 4, c09_b_k05 = 5, c09_b_k06 = 6, c09_b_k07 = 7, c09_b_k08 = 8, c09_b_k09 = 9, c09_b_k10 = 10, c09_b_k11 = 11, c09_b_k12 = 12, c09_b_k13 = 13 }
crash_instances! { crash_shape_c, true, true, false;
    c09_c_k06 = 6, c09_c_k07 = 7, c09_c_k08 = 8, c09_c_k09 = 9, c09_c_k10 = 10, c09_c_k11 = 11, c09_c_k12 = 12, c09_c_k13 = 13, c09_c_k14 = 14, c09_c_k15 = 15, c09_c_k16 = 16, c09_c_k17 = 17, c09_c_k18 = 18, c09_c_k19 = 19, c09_c_k20 = 20, c09_c_k21 = 21, c09_c_k22 = 22, c09_c_k23 = 23, c09_c_k24 = 24, c09_c_k25 = 25, c09_c_k26 = 26, c09_c_k27 = 27, c09_c_k28 = 28, c09_c_k29 = 29, c09_c_k30 = 30 }
crash_instances! { crash_shape_a, true, true, false;
    c09_a_k10 = 10, c09_a_k11 = 11, c09_a_k12 = 12, c09_a_k13 = 13, c09_a_k14 = 14, c09_a_k15 = 15, c09_a_k16 = 16, c09_a_k17 = 17, c09_a_k18 = 18, c09_a_k19 = 19, c09_a_k20 = 20, c09_a_k21 = 21, c09_a_k22 = 22, c09_a_k23 = 23, c09_a_k24 = 24, c09_a_k25 = 25, c09_a_k26 = 26, c09_a_k27 = 27, c09_a_k28 = 28, c09_a_k29 = 29, c09_a_k30 = 30, c09_a_k31 = 31, c09_a_k32 = 32 }

crash_instances! { crash_shape_d, false, false, true;
    c03_d_k08 = 8, c03_d_k09 = 9, c03_d_k10 = 10, c03_d_k11 = 11, c03_d_k12 = 12, c03_d_k13 = 13, c03_d_k14 = 14, c03_d_k15 = 15, c03_d_k16 = 16, c03_d_k17 = 17, c03_d_k18 = 18, c03_d_k19 = 19, c03_d_k20 = 20, c03_d_k21 = 21, c03_d_k22 = 22, c03_d_k23 = 23, c03_d_k24 = 24, c03_d_k25 = 25, c03_d_k26 = 26 }

/// Number of file-system calls of each crash shape (reported through covers).
macro_rules! steps_of { ($name:ident, $shape:ident, $sync:expr) => {
    s_harness! { fn $name() {
        $shape(0, $sync, false, true);
        let n = mfs::__fs().steps;
        kani::cover!(n < 8, "steps < 8");
        kani::cover!(n >= 8 && n < 12, "8 <= steps < 12");
        kani::cover!(n >= 12 && n < 16, "12 <= steps < 16");
        kani::cover!(n >= 16 && n < 20, "16 <= steps < 20");
        kani::cover!(n >= 20 && n < 24, "20 <= steps < 24");
        kani::cover!(n >= 24 && n < 28, "24 <= steps < 28");
        kani::cover!(n >= 28 && n < 34, "28 <= steps < 34");
        kani::cover!(n >= 34, "steps >= 34");
        kani::cover!(n % 4 == 0, "steps % 4 == 0");
        kani::cover!(n % 4 == 1, "steps % 4 == 1");
        kani::cover!(n % 4 == 2, "steps % 4 == 2");
        kani::cover!(n % 4 == 3, "steps % 4 == 3");
    } }
} }
steps_of!(steps_a, crash_shape_a, false);
steps_of!(steps_b, crash_shape_b, false);
steps_of!(steps_c, crash_shape_c, false);
steps_of!(steps_sync_b, crash_shape_b, true);
steps_of!(steps_sync_c, crash_shape_c, true);

// C20: one fault per run; one harness instance per (call number after open, mode)
s_harness! { fn c20_a_k00() { fault_shape_a(false, 0, 0) } }
s_harness! { fn c20_a_k01() { fault_shape_a(false, 1, 0) } }
s_harness! { fn c20_a_k02() { fault_shape_a(false, 2, 0) } }
s_harness! { fn c20_a_k03() { fault_shape_a(false, 3, 0) } }
s_harness! { fn c20_a_k04() { fault_shape_a(false, 4, 0) } }
s_harness! { fn c20_a_k05() { fault_shape_a(false, 5, 0) } }
s_harness! { fn c20_a_k06() { fault_shape_a(false, 6, 0) } }
s_harness! { fn c20_a_k07() { fault_shape_a(false, 7, 0) } }
s_harness! { fn c20_aw_k00() { fault_shape_a(false, 0, 1) } }
s_harness! { fn c20_aw_k02() { fault_shape_a(false, 2, 1) } }
s_harness! { fn c20_aw_k04() { fault_shape_a(false, 4, 1) } }
s_harness! { fn c20_aw_k06() { fault_shape_a(false, 6, 1) } }
s_harness! { fn c20_b_k00() { fault_shape_b(false, 0, 0) } }
s_harness! { fn c20_b_k01() { fault_shape_b(false, 1, 0) } }
s_harness! { fn c20_b_k02() { fault_shape_b(false, 2, 0) } }
s_harness! { fn c20_b_k03() { fault_shape_b(false, 3, 0) } }
s_harness! { fn c20_b_k04() { fault_shape_b(false, 4, 0) } }
s_harness! { fn c20_b_k05() { fault_shape_b(false, 5, 0) } }
s_harness! { fn c20_b_k06() { fault_shape_b(false, 6, 0) } }
s_harness! { fn c20_b_k07() { fault_shape_b(false, 7, 0) } }
s_harness! { fn c20_b_k08() { fault_shape_b(false, 8, 0) } }
s_harness! { fn c20_b_k09() { fault_shape_b(false, 9, 0) } }
s_harness! { fn c20_b_k10() { fault_shape_b(false, 10, 0) } }
s_harness! { fn c20_b_k11() { fault_shape_b(false, 11, 0) } }
s_harness! { fn c20_b_k12() { fault_shape_b(false, 12, 0) } }
s_harness! { fn c20_b_k13() { fault_shape_b(false, 13, 0) } }
s_harness! { fn c20_b_k14() { fault_shape_b(false, 14, 0) } }
s_harness! { fn c20_b_k15() { fault_shape_b(false, 15, 0) } }
s_harness! { fn c20_b_k16() { fault_shape_b(false, 16, 0) } }
s_harness! { fn c20_b_k17() { fault_shape_b(false, 17, 0) } }
s_harness! { fn c20_bw_k00() { fault_shape_b(false, 0, 1) } }
s_harness! { fn c20_bw_k06() { fault_shape_b(false, 6, 1) } }
s_harness! { fn c20_bw_k07() { fault_shape_b(false, 7, 1) } }
s_harness! { fn c20_bw_k16() { fault_shape_b(false, 16, 1) } }
s_harness! { fn c20_ay_k00() { fault_shape_a(true, 0, 0) } }
s_harness! { fn c20_ay_k01() { fault_shape_a(true, 1, 0) } }
s_harness! { fn c20_ay_k02() { fault_shape_a(true, 2, 0) } }
s_harness! { fn c20_ay_k03() { fault_shape_a(true, 3, 0) } }

s_harness! { fn c20_m1_k00() { fault_shape_m1(0, 0) } }
s_harness! { fn c20_m1_k01() { fault_shape_m1(1, 0) } }
s_harness! { fn c20_m1_k02() { fault_shape_m1(2, 0) } }
s_harness! { fn c20_m1_k03() { fault_shape_m1(3, 0) } }
s_harness! { fn c20_m1w_k00() { fault_shape_m1(0, 1) } }
s_harness! { fn c20_m1w_k02() { fault_shape_m1(2, 1) } }
s_harness! { fn c20_m2_k00() { fault_shape_m2(0, 0) } }
s_harness! { fn c20_m2_k01() { fault_shape_m2(1, 0) } }
s_harness! { fn c20_m2_k02() { fault_shape_m2(2, 0) } }
s_harness! { fn c20_m2_k03() { fault_shape_m2(3, 0) } }
s_harness! { fn c20_m2_k04() { fault_shape_m2(4, 0) } }
s_harness! { fn c20_m2_k05() { fault_shape_m2(5, 0) } }
s_harness! { fn c20_m2_k06() { fault_shape_m2(6, 0) } }
s_harness! { fn c20_m2_k07() { fault_shape_m2(7, 0) } }
s_harness! { fn c20_m2_k08() { fault_shape_m2(8, 0) } }
s_harness! { fn c20_m2_k09() { fault_shape_m2(9, 0) } }
s_harness! { fn c20_m2_k10() { fault_shape_m2(10, 0) } }
s_harness! { fn c20_m2_k11() { fault_shape_m2(11, 0) } }
s_harness! { fn c20_m2_k12() { fault_shape_m2(12, 0) } }
s_harness! { fn c20_m2_k13() { fault_shape_m2(13, 0) } }
s_harness! { fn c20_m2_k14() { fault_shape_m2(14, 0) } }
s_harness! { fn c20_m2_k15() { fault_shape_m2(15, 0) } }

s_harness! { fn c20_m3_k00() { fault_shape_m3(0) } }
s_harness! { fn c20_m3_k01() { fault_shape_m3(1) } }
s_harness! { fn c20_m3_k02() { fault_shape_m3(2) } }
s_harness! { fn c20_m3_k03() { fault_shape_m3(3) } }
s_harness! { fn c20_m3_k04() { fault_shape_m3(4) } }
s_harness! { fn c20_m3_k05() { fault_shape_m3(5) } }
s_harness! { fn c20_m3_k06() { fault_shape_m3(6) } }
s_harness! { fn c20_m3_k07() { fault_shape_m3(7) } }
s_harness! { fn c20_m3_k08() { fault_shape_m3(8) } }
s_harness! { fn c20_m3_k09() { fault_shape_m3(9) } }
s_harness! { fn c20_m3_k10() { fault_shape_m3(10) } }
s_harness! { fn c20_m4_k00() { fault_shape_m4(0) } }
s_harness! { fn c20_m4_k01() { fault_shape_m4(1) } }
s_harness! { fn c20_m4_k02() { fault_shape_m4(2) } }
s_harness! { fn c20_m4_k03() { fault_shape_m4(3) } }
s_harness! { fn c20_m4_k04() { fault_shape_m4(4) } }
s_harness! { fn c20_m4_k05() { fault_shape_m4(5) } }
s_harness! { fn c20_m4_k06() { fault_shape_m4(6) } }
s_harness! { fn c20_m4_k07() { fault_shape_m4(7) } }
s_harness! { fn c20_m4_k08() { fault_shape_m4(8) } }
s_harness! { fn c20_m4_k09() { fault_shape_m4(9) } }
s_harness! { fn c20_m4_k10() { fault_shape_m4(10) } }
s_harness! { fn c20_m5_k00() { fault_shape_m5(0, 0) } }
s_harness! { fn c20_m5_k01() { fault_shape_m5(1, 0) } }
s_harness! { fn c20_m5w_k00() { fault_shape_m5(0, 1) } }
s_harness! { fn c20_r_k00() { fault_shape_r(0) } }
s_harness! { fn c20_r_k01() { fault_shape_r(1) } }
s_harness! { fn c20_r_k02() { fault_shape_r(2) } }
s_harness! { fn c20_r_k03() { fault_shape_r(3) } }
s_harness! { fn c20_r_k04() { fault_shape_r(4) } }
s_harness! { fn c20_r_k05() { fault_shape_r(5) } }
s_harness! { fn c20_r_k06() { fault_shape_r(6) } }
s_harness! { fn c20_r_k07() { fault_shape_r(7) } }
s_harness! { fn c20_r_k08() { fault_shape_r(8) } }
s_harness! { fn c20_r_k09() { fault_shape_r(9) } }
s_harness! { fn c20_m0_k00() { fault_shape_m0(0, 0) } }
s_harness! { fn c20_m0_k01() { fault_shape_m0(1, 0) } }
s_harness! { fn c20_m0w_k00() { fault_shape_m0(0, 1) } }
// C12: shapes with merges, then recovery with and without the hint files
s_harness! { fn c12_shape_2() { shape_2::<CHK_HINT>() } }
s_harness! { fn c12_shape_4() { shape_4::<CHK_HINT>() } }
s_harness! { fn c12_shape_5() { shape_5::<CHK_HINT>() } }
s_harness! { fn c12_shape_6() { shape_6::<CHK_HINT>() } }
s_harness! { fn c12_direct_2() { shape_2::<CHK_HINT_DIRECT>() } }
s_harness! { fn c12_direct_4() { shape_4::<CHK_HINT_DIRECT>() } }

s_harness! {
/// C17 (first clause): after `Handle::close` (what `Drop for Bitcask` does) every operation through
/// a handle — inherent methods and the `KeyValueStorage` trait — fails with `Error::Closed` and
/// issues no file-system call; the directory can be opened again at once with active id max+1.
fn c17_closed() {
    mfs::__preexisting(dslot(0));
    let v: u8 = kani::any();
    lay_data(dslot(0), 0, K[0], Some(v));
    let Store { ctx, w, r } = open_store(mk_conf_thr(u64::MAX, 2, false, T_ALL));
    let conc: usize = kani::any();
    kani::assume(conc <= 1);
    let readers = Arc::new(ArrayQueue::new(1));
    let _ = readers.push(r);
    let h = Handle { ctx, writer: Arc::new(Mutex::new(w)), readers };
    // open handles work
    let g = must(h.get(kb(K[0])));
    assert!(v1(&g) == Some(v));
    h.close();
    let steps = mfs::__fs().steps;
    let which: u8 = kani::any();
    let closed = match which {
        0 => matches!(h.put(kb(K[0]), kb(1)), Err(Error::Closed)),
        1 => matches!(h.delete(kb(K[0])), Err(Error::Closed)),
        2 => matches!(h.get(kb(K[0])), Err(Error::Closed)),
        3 => matches!(h.merge(), Err(Error::Closed)),
        4 => matches!(h.sync(), Err(Error::Closed)),
        5 => matches!(KeyValueStorage::set(&h, kb(K[1]), kb(2)), Err(Error::Closed)),
        6 => matches!(KeyValueStorage::del(&h, kb(K[0])), Err(Error::Closed)),
        _ => matches!(KeyValueStorage::get(&h, kb(K[0])), Err(Error::Closed)),
    };
    assert!(closed, "[C17] an operation on a closed store did not fail with Error::Closed");
    assert!(mfs::__fs().steps == steps, "[C17] an operation on a closed store touched the disk");
    let (kd, st, active) = must(rebuild_storage("d"));
    assert!(active == 2, "[C17] reopening after close does not continue with id max+1");
    assert!(read_via(&kd, K[0]) == Some(Some(v)), "[C17] contents changed by operations on a closed store");
    std::mem::forget((kd, st, h));
} }

s_harness! {
/// C18 (decision logic only): the real `Context::can_merge` equals an independently written
/// reference predicate.  SYMBOLIC: policy, window start/end, clock hour, the dead-bytes trigger and
/// the file's dead bytes.  ENUMERATED in the harness (symbolic f64 division does not finish in 25
/// min - measured): live/dead key counts in 0..=3 x 0..=3 and the fragmentation trigger in
/// {0.0, 0.25, 0.5, 0.75, 1.0}; `fragmentation()` stays in [0,1] and never divides by zero.
fn c18_can_merge() {
    let pol: u8 = kani::any();
    let (start, end): (u32, u32) = (kani::any(), kani::any());
    kani::assume(start < 24 && end < 24);
    let td: u64 = kani::any();
    let db: u64 = kani::any();
    let hour: u32 = kani::any();
    kani::assume(hour < 24);
    unsafe { chrono::NOW_HOUR = hour };
    const TF: [f64; 5] = [0.0, 0.25, 0.5, 0.75, 1.0];
    let mut ti = 0;
    while ti < 5 {
        let mut l = 0u64;
        while l < 4 {
            let mut d = 0u64;
            while d < 4 {
                let mut conf = mk_conf(u64::MAX, 0, false);
                conf.merge.policy = match pol {
                    0 => MergePolicy::Never,
                    1 => MergePolicy::Always,
                    _ => MergePolicy::Window { start, end },
                };
                conf.merge.triggers.fragmentation = TF[ti];
                conf.merge.triggers.dead_bytes = td;
                let st = LogStatistics { live_keys: l, dead_keys: d, dead_bytes: db };
                let fr = st.fragmentation();
                assert!(fr >= 0.0 && fr <= 1.0, "[C18] fragmentation outside [0,1]");
                let r = if d == 0 { 0.0 } else { (d as f64) / ((d as f64) + (l as f64)) };
                let want = db > td || r > TF[ti];
                let stats: DashMap<u64, LogStatistics> = DashMap::default();
                stats.insert(3, st);
                let ctx = Context { conf, keydir: DashMap::default(), stats, closed: AtomicCell::new(false) };
                let got = ctx.can_merge();
                let expect = match pol {
                    0 => false,
                    1 => want,
                    _ => want && hour >= start && hour <= end,
                };
                assert!(got == expect, "[C18] can_merge disagrees with the configured policy / triggers");
                kani::cover!(got && pol >= 2 && hour == end, "a merge is due in the last hour of the window");
                std::mem::forget(ctx);
                d += 1;
            }
            l += 1;
        }
        ti += 1;
    }
} }

s_harness! {
/// C18: the real `fileids_to_merge` selects exactly the files meeting a threshold (dead bytes,
/// fragmentation, small file), closed towards older files (789eab8).  SYMBOLIC: dead bytes per
/// file, file lengths, the dead-bytes and small-file thresholds; concrete key counts per file
/// ((2,1), (0,3), (3,0): fragmentation 1/3, 1, 0) and the fragmentation threshold enumerated over
/// {0.0, 0.4, 1.0}.
fn c18_selection() {
    let (td, ts): (u64, u64) = (kani::any(), kani::any());
    const TF: [f64; 3] = [0.0, 0.4, 1.0];
    const KEYS: [(u64, u64); 3] = [(2, 1), (0, 3), (3, 0)];
    let mut lens = [0usize; 3];
    let mut dbs = [0u64; 3];
    let mut id = 0;
    while id < 3 {
        mfs::__preexisting(dslot(id));
        let len: usize = kani::any();
        kani::assume(len <= mfs::FCAP);
        mfs::__fs().inodes[dslot(id)].len = len;
        lens[id] = len;
        dbs[id] = kani::any();
        id += 1;
    }
    let mut ti = 0;
    while ti < 3 {
        let mut conf = mk_conf(u64::MAX, 0, false);
        conf.merge.thresholds.fragmentation = TF[ti];
        conf.merge.thresholds.dead_bytes = td;
        conf.merge.thresholds.small_file = ts;
        let stats: DashMap<u64, LogStatistics> = DashMap::default();
        let mut sel = [false; 3];
        let mut id = 0;
        while id < 3 {
            let st = LogStatistics { live_keys: KEYS[id].0, dead_keys: KEYS[id].1, dead_bytes: dbs[id] };
            sel[id] = dbs[id] > td || st.fragmentation() > TF[ti] || (lens[id] as u64) < ts;
            stats.insert(id as u64, st);
            id += 1;
        }
        let want = [sel[0] || sel[1] || sel[2], sel[1] || sel[2], sel[2]];
        let ctx = Context { conf, keydir: DashMap::default(), stats, closed: AtomicCell::new(false) };
        let got = must(ctx.fileids_to_merge("d"));
        let mut id = 0;
        while id < 3 {
            assert!(got.contains(&(id as u64)) == want[id], "[C18] fileids_to_merge selects a different set than the thresholds (closed towards older files) prescribe");
            id += 1;
        }
        kani::cover!(want[0] && !want[2], "an older file is merged while the newest is not");
        std::mem::forget((ctx, got));
        ti += 1;
    }
} }
