//! Store-level stand-in for `bincode` 1.3: a compact, lossless, self-delimiting serde codec with
//! the same API surface (`serialize_into, deserialize, deserialize_from, Result, Error,
//! ErrorKind::Io`) and the contract the store relies on:
//!   * decode(encode(e)) == e;
//!   * the encoded length is a function of the field lengths only;
//!   * a truncated input yields `ErrorKind::Io(UnexpectedEof)`.
//! That contract is decided for the REAL bincode (bounded) by the log-layer harnesses
//! (`shadow-log`), where formatting can be stubbed.  Layout: i64/u64 = 1 byte (model bound:
//! value fits), byte string = 1 length byte + bytes, Option = 1 tag byte (0/1) + payload,
//! struct = fields in order.
use serde::de::{self, DeserializeOwned, DeserializeSeed, SeqAccess, Visitor};
use serde::ser::{self, Impossible, SerializeStruct};
use serde::{Deserialize, Serialize};
use vstd_shim::io::{self, Read, Write};

pub const MAXB: usize = 8;
pub type Result<T> = std::result::Result<T, Error>;
/// bincode: `pub type Error = Box<ErrorKind>`.  Here a niche-free value type with the same
/// `as_ref() -> &ErrorKind` (see the note on niches in vstd_shim::io).
pub struct Error(std::cell::UnsafeCell<ErrorKind>);
unsafe impl Sync for Error {}
impl Error { fn mk(k: ErrorKind) -> Error { Error(std::cell::UnsafeCell::new(k)) } }
impl AsRef<ErrorKind> for Error { fn as_ref(&self) -> &ErrorKind { unsafe { &*self.0.get() } } }
impl std::ops::Deref for Error { type Target = ErrorKind; fn deref(&self) -> &ErrorKind { self.as_ref() } }
impl std::fmt::Debug for Error { fn fmt(&self, f: &mut std::fmt::Formatter<'_>) -> std::fmt::Result { f.write_str("codec error") } }
impl std::fmt::Display for Error { fn fmt(&self, f: &mut std::fmt::Formatter<'_>) -> std::fmt::Result { f.write_str("codec error") } }
impl std::error::Error for Error {}
#[derive(Debug)]
pub enum ErrorKind { Io(io::Error), Custom, InvalidTag, Unsupported }
impl std::fmt::Display for ErrorKind { fn fmt(&self, f: &mut std::fmt::Formatter<'_>) -> std::fmt::Result { f.write_str("codec error") } }
impl std::error::Error for ErrorKind {}
impl From<io::Error> for Error { fn from(e: io::Error) -> Error { Error::mk(ErrorKind::Io(e)) } }
impl ser::Error for Error { fn custom<T: std::fmt::Display>(_m: T) -> Self { Error::mk(ErrorKind::Custom) } }
impl de::Error for Error { fn custom<T: std::fmt::Display>(_m: T) -> Self { Error::mk(ErrorKind::Custom) } }

pub fn serialize_into<W: Write, T: ?Sized + Serialize>(w: W, v: &T) -> Result<()> { let mut s = Ser { w }; v.serialize(&mut s) }
pub fn deserialize<'a, T: Deserialize<'a>>(b: &'a [u8]) -> Result<T> { let mut d = De { r: b }; T::deserialize(&mut d) }
pub fn deserialize_from<R: Read, T: DeserializeOwned>(r: R) -> Result<T> { let mut d = De { r }; T::deserialize(&mut d) }

struct Ser<W> { w: W }
impl<W: Write> Ser<W> { fn byte(&mut self, b: u8) -> Result<()> { self.w.write_all(&[b]).map_err(Into::into) } }
macro_rules! unsup { ($($f:ident($($t:ty),*);)*) => { $( fn $f(self $(, _: $t)*) -> Result<()> { Err(Error::mk(ErrorKind::Unsupported)) } )* } }
impl<'a, W: Write> ser::Serializer for &'a mut Ser<W> {
    type Ok = (); type Error = Error;
    type SerializeSeq = Impossible<(), Error>; type SerializeTuple = Impossible<(), Error>; type SerializeTupleStruct = Impossible<(), Error>;
    type SerializeTupleVariant = Impossible<(), Error>; type SerializeMap = Impossible<(), Error>; type SerializeStruct = Self; type SerializeStructVariant = Impossible<(), Error>;
    fn serialize_i64(self, v: i64) -> Result<()> { assert!(v >= -128 && v <= 127, "model bound: i64 fits one byte"); self.byte(v as i8 as u8) }
    fn serialize_u64(self, v: u64) -> Result<()> { assert!(v <= 255, "model bound: u64 fits one byte"); self.byte(v as u8) }
    fn serialize_bytes(self, v: &[u8]) -> Result<()> { assert!(v.len() <= 255); self.byte(v.len() as u8)?; self.w.write_all(v).map_err(Into::into) }
    fn serialize_none(self) -> Result<()> { self.byte(0) }
    fn serialize_some<T: ?Sized + Serialize>(self, v: &T) -> Result<()> { self.byte(1)?; v.serialize(self) }
    fn serialize_struct(self, _n: &'static str, _l: usize) -> Result<Self> { Ok(self) }
    unsup! { serialize_bool(bool); serialize_i8(i8); serialize_i16(i16); serialize_i32(i32); serialize_u8(u8); serialize_u16(u16); serialize_u32(u32); serialize_f32(f32); serialize_f64(f64); serialize_char(char); serialize_str(&str); serialize_unit(); serialize_unit_struct(&'static str); serialize_unit_variant(&'static str, u32, &'static str); }
    fn serialize_newtype_struct<T: ?Sized + Serialize>(self, _n: &'static str, v: &T) -> Result<()> { v.serialize(self) }
    fn serialize_newtype_variant<T: ?Sized + Serialize>(self, _n: &'static str, _i: u32, _v: &'static str, _x: &T) -> Result<()> { Err(Error::mk(ErrorKind::Unsupported)) }
    fn serialize_seq(self, _l: Option<usize>) -> Result<Self::SerializeSeq> { Err(Error::mk(ErrorKind::Unsupported)) }
    fn serialize_tuple(self, _l: usize) -> Result<Self::SerializeTuple> { Err(Error::mk(ErrorKind::Unsupported)) }
    fn serialize_tuple_struct(self, _n: &'static str, _l: usize) -> Result<Self::SerializeTupleStruct> { Err(Error::mk(ErrorKind::Unsupported)) }
    fn serialize_tuple_variant(self, _n: &'static str, _i: u32, _v: &'static str, _l: usize) -> Result<Self::SerializeTupleVariant> { Err(Error::mk(ErrorKind::Unsupported)) }
    fn serialize_map(self, _l: Option<usize>) -> Result<Self::SerializeMap> { Err(Error::mk(ErrorKind::Unsupported)) }
    fn serialize_struct_variant(self, _n: &'static str, _i: u32, _v: &'static str, _l: usize) -> Result<Self::SerializeStructVariant> { Err(Error::mk(ErrorKind::Unsupported)) }
}
impl<'a, W: Write> SerializeStruct for &'a mut Ser<W> {
    type Ok = (); type Error = Error;
    fn serialize_field<T: ?Sized + Serialize>(&mut self, _k: &'static str, v: &T) -> Result<()> { v.serialize(&mut **self) }
    fn end(self) -> Result<()> { Ok(()) }
}

struct De<R> { r: R }
impl<R: Read> De<R> {
    /// `read_exact`, written out: same contract (retry on `Interrupted`, `UnexpectedEof` when the
    /// input ends early).  The only difference from std's `default_read_exact` is that the EOF
    /// error is built from its `ErrorKind` instead of std's `const` `SimpleMessage`: decoding the
    /// kind of the latter goes through pointer-tag bit tests that CBMC cannot constant-fold, so
    /// every end-of-file would look like "any error kind" to the caller.
    fn fill(&mut self, buf: &mut [u8]) -> Result<()> {
        let mut off = 0;
        // every successful read delivers at least one byte, so `MAXB` rounds always suffice; the
        // constant bound keeps symex from unrolling to the unwinding limit when lengths are symbolic
        let mut round = 0;
        while round < MAXB {
            if off < buf.len() {
                match self.r.read(&mut buf[off..]) {
                    Ok(0) => return Err(Error::mk(ErrorKind::Io(io::Error::from(io::ErrorKind::UnexpectedEof)))),
                    Ok(n) => off += n,
                    Err(e) => {
                        if e.kind() != io::ErrorKind::Interrupted {
                            return Err(Error::mk(ErrorKind::Io(e)));
                        }
                        // a retry does not count as a round (never produced by the model file system)
                        assert!(false, "model bound: Interrupted is never injected");
                    }
                }
            }
            round += 1;
        }
        assert!(off >= buf.len(), "model bound: fill rounds");
        Ok(())
    }
    fn byte1(&mut self) -> Result<u8> {
        let mut b = [0u8; 1];
        loop {
            match self.r.read(&mut b) {
                Ok(0) => return Err(Error::mk(ErrorKind::Io(io::Error::from(io::ErrorKind::UnexpectedEof)))),
                Ok(_) => return Ok(b[0]),
                Err(e) => {
                    if e.kind() != io::ErrorKind::Interrupted {
                        return Err(Error::mk(ErrorKind::Io(e)));
                    }
                }
            }
        }
    }
    fn byte(&mut self) -> Result<u8> { self.byte1() }
}
macro_rules! unsup_de { ($($f:ident)*) => { $( fn $f<V: Visitor<'de>>(self, _v: V) -> Result<V::Value> { Err(Error::mk(ErrorKind::Unsupported)) } )* } }
impl<'de, 'a, R: Read> de::Deserializer<'de> for &'a mut De<R> {
    type Error = Error;
    fn deserialize_i64<V: Visitor<'de>>(self, v: V) -> Result<V::Value> { let b = self.byte()?; v.visit_i64(b as i8 as i64) }
    fn deserialize_u64<V: Visitor<'de>>(self, v: V) -> Result<V::Value> { let b = self.byte()?; v.visit_u64(b as u64) }
    fn deserialize_byte_buf<V: Visitor<'de>>(self, v: V) -> Result<V::Value> {
        let n = self.byte()? as usize;
        if n > MAXB { return Err(Error::mk(ErrorKind::Custom)); }
        let mut buf = [0u8; MAXB];
        self.fill(&mut buf[..n])?;
        v.visit_bytes(&buf[..n])
    }
    fn deserialize_bytes<V: Visitor<'de>>(self, v: V) -> Result<V::Value> { self.deserialize_byte_buf(v) }
    fn deserialize_option<V: Visitor<'de>>(self, v: V) -> Result<V::Value> { match self.byte()? { 0 => v.visit_none(), 1 => v.visit_some(self), _ => Err(Error::mk(ErrorKind::InvalidTag)) } }
    fn deserialize_struct<V: Visitor<'de>>(self, _n: &'static str, f: &'static [&'static str], v: V) -> Result<V::Value> {
        struct A<'b, R> { d: &'b mut De<R>, left: usize }
        impl<'de, 'b, R: Read> SeqAccess<'de> for A<'b, R> {
            type Error = Error;
            fn next_element_seed<T: DeserializeSeed<'de>>(&mut self, s: T) -> Result<Option<T::Value>> { if self.left == 0 { return Ok(None); } self.left -= 1; s.deserialize(&mut *self.d).map(Some) }
        }
        v.visit_seq(A { d: self, left: f.len() })
    }
    fn deserialize_newtype_struct<V: Visitor<'de>>(self, _n: &'static str, v: V) -> Result<V::Value> { v.visit_newtype_struct(self) }
    unsup_de! { deserialize_any deserialize_bool deserialize_i8 deserialize_i16 deserialize_i32 deserialize_u8 deserialize_u16 deserialize_u32 deserialize_f32 deserialize_f64 deserialize_char deserialize_str deserialize_string deserialize_unit deserialize_seq deserialize_map deserialize_identifier deserialize_ignored_any }
    fn deserialize_unit_struct<V: Visitor<'de>>(self, _n: &'static str, _v: V) -> Result<V::Value> { Err(Error::mk(ErrorKind::Unsupported)) }
    fn deserialize_tuple<V: Visitor<'de>>(self, _l: usize, _v: V) -> Result<V::Value> { Err(Error::mk(ErrorKind::Unsupported)) }
    fn deserialize_tuple_struct<V: Visitor<'de>>(self, _n: &'static str, _l: usize, _v: V) -> Result<V::Value> { Err(Error::mk(ErrorKind::Unsupported)) }
    fn deserialize_enum<V: Visitor<'de>>(self, _n: &'static str, _vs: &'static [&'static str], _v: V) -> Result<V::Value> { Err(Error::mk(ErrorKind::Unsupported)) }
}
