//! Native replay of parser counterexamples against the REAL crate (public API only).
//! usage: replay_net <mode> <hex bytes> [args]
//!   check_parse <hex>          run Frame::check then Frame::parse on the buffer as Connection::parse_frame does
//!   parse <hex>                run Frame::parse alone
//!   int_at <offset> <hexnum>   place `<hexnum>` (the bytes after ':') at absolute offset <offset> behind a valid
//!                              prefix and run check+parse; prints the integer read
//!   nest <depth>               `*1\r\n` repeated <depth> times + `:1\r\n`, on a 2 MiB thread stack (tokio's default)
//! Prints one line `OUTCOME ...`; a panic exits with 101, an abort / stack overflow with a signal.
use bitcask::net::frame::{Error, Frame};
use std::io::Cursor;

fn unhex(s: &str) -> Vec<u8> {
    (0..s.len() / 2).map(|i| u8::from_str_radix(&s[2 * i..2 * i + 2], 16).unwrap()).collect()
}

fn check_parse(b: &[u8]) {
    let mut c = Cursor::new(b);
    match Frame::check(&mut c) {
        Ok(()) => {
            let n = c.position();
            c.set_position(0);
            match Frame::parse(&mut c) {
                Ok(f) => println!("OUTCOME check=ok({}) parse=ok({}) frame={:?}", n, c.position(), f),
                Err(e) => println!("OUTCOME check=ok({}) parse=err({:?})", n, e),
            }
        }
        Err(Error::Incomplete) => println!("OUTCOME check=incomplete"),
        Err(e) => println!("OUTCOME check=err({:?})", e),
    }
}

/// A valid prefix after which a ':' sits at absolute offset `off - 1` (so the number starts at `off`).
fn prefix_for(off: usize) -> Option<Vec<u8>> {
    match off {
        1 => Some(b":".to_vec()),
        5 => Some(b"*1\r\n:".to_vec()),
        o if o >= 8 => {
            let mut v = b"*2\r\n+".to_vec();
            v.extend(std::iter::repeat(b'a').take(o - 8));
            v.extend_from_slice(b"\r\n:");
            Some(v)
        }
        _ => None,
    }
}

fn main() {
    let a: Vec<String> = std::env::args().collect();
    match a[1].as_str() {
        "check_parse" => check_parse(&unhex(&a[2])),
        "parse" => {
            let b = unhex(&a[2]);
            let mut c = Cursor::new(&b[..]);
            match Frame::parse(&mut c) {
                Ok(f) => println!("OUTCOME parse=ok({}) frame={:?}", c.position(), f),
                Err(e) => println!("OUTCOME parse=err({:?})", e),
            }
        }
        "int_at" => {
            let off: usize = a[2].parse().unwrap();
            let mut v = prefix_for(off).expect("no prefix construction for this offset");
            assert_eq!(v.len(), off);
            v.extend(unhex(&a[3]));
            check_parse(&v);
        }
        "nest" => {
            let depth: usize = a[2].parse().unwrap();
            let mut v = Vec::with_capacity(depth * 4 + 4);
            for _ in 0..depth {
                v.extend_from_slice(b"*1\r\n");
            }
            v.extend_from_slice(b":1\r\n");
            let h = std::thread::Builder::new()
                .stack_size(2 * 1024 * 1024)
                .spawn(move || {
                    let mut c = Cursor::new(&v[..]);
                    let r = Frame::check(&mut c);
                    let ok = r.is_ok();
                    let mut p = "skipped".to_string();
                    if ok {
                        c.set_position(0);
                        p = match Frame::parse(&mut c) {
                            Ok(_) => "ok".into(),
                            Err(e) => format!("err({:?})", e),
                        };
                    }
                    println!("OUTCOME check={} parse={}", if ok { "ok".to_string() } else { format!("{:?}", r) }, p);
                })
                .unwrap();
            h.join().unwrap();
        }
        _ => panic!("unknown mode"),
    }
}
