"""Property -> harness table: which Kani harnesses decide which property, at which tier, with which
bounds.  Everything a check claims is derived from this table and from what Kani reports."""

# unwind rules: (regex on the pretty function name, loop index, bound)
STORE_RULES = [
    (r"^storage::bitcask::populate_keydir_with_(data|hint)file::<[^>]*>$", 0, 5),
    (r"^storage::bitcask::rebuild_storage::<[^>]*>$", 0, 6),
]


def H(name, tier="quick", timeout=900, covers=(), rules=(), mem_gb=14, fsens=2048, note=""):
    return dict(name=name, tier=tier, timeout=timeout, covers=list(covers), rules=list(rules), mem_gb=mem_gb,
                fsens=fsens, note=note)


# recursion of the two parser entry points is unwound 3 times in the whole-function harnesses (inputs
# are assumed to contain at most one '*', so depth 2 is never exceeded: the unwinding assertion checks it)
REC_RULES = [(r"^net::frame::Frame::(check|parse)(_nested)?$", None, 3)]

NET_STUBS = [
    "alloc::fmt::format -> empty String (error-message text only)",
    "String::from_utf8_lossy -> empty str (error-message text only)",
]

PROPS = {
    "C07": dict(
        crate="net",
        title="The RESP parser is total: no input panics, aborts or mis-reads a number",
        harnesses=[
            H("c07_small_readers", timeout=300),
            H("c07_get_line_16", timeout=300),
            H("c07_get_integer_total_24", timeout=900),
            H("c07_int_exact_small_p1", timeout=1200, covers=["a 7-digit negative number accepted"]),
            H("c07_int_exact_small_p19", timeout=1200, covers=["a 7-digit negative number accepted"]),
            H("c07_int_exact_limit_p1", timeout=1200, covers=["i64::MAX accepted", "i64::MIN accepted", "an out-of-range number rejected"]),
            H("c07_int_exact_limit_p19", timeout=1200, covers=["i64::MAX accepted", "i64::MIN accepted", "an out-of-range number rejected"]),
            H("c07_check_parse_6", timeout=1500, rules=REC_RULES, covers=["an array was checked and parsed", "a bulk string / null was checked and parsed"]),
            H("c07_parse_alone_6", timeout=1500, rules=REC_RULES),
            H("c07_depth", timeout=900, covers=["nesting beyond the cap is rejected"]),
            H("c07_get_integer_total_44", tier="thorough", timeout=2400),
            H("c07_int_exact_small_p24", tier="thorough", timeout=1800, covers=["a 7-digit negative number accepted"]),
            H("c07_int_exact_limit_p18", tier="thorough", timeout=1800, covers=["i64::MAX accepted", "i64::MIN accepted", "an out-of-range number rejected"]),
            H("c07_int_exact_limit_p24", tier="thorough", timeout=1800, covers=["i64::MAX accepted", "i64::MIN accepted", "an out-of-range number rejected"]),
            H("c07_check_parse_8", tier="thorough", timeout=3600, rules=REC_RULES, covers=["an array was checked and parsed", "a bulk string / null was checked and parsed"]),
        ],
        bounds={
            "get_integer totality": "buffer of N fully symbolic bytes (N=24 quick, 44 thorough), symbolic length 1..N, symbolic start offset 1..len",
            "get_integer exactness": "concrete start offsets {1,19} (thorough: +{18,24}); (a) <= 7 symbolic digits, (b) symbolic sign + 16 concrete digits 9223372036854775 + symbolic tail: all 17..20-digit numbers around both i64 limits",
            "check/parse": "fully symbolic buffer of 6 (thorough 8) bytes, symbolic length; recursion unwound to the harness bound",
            "depth": "k in 0..=40 nested '*1\\r\\n' headers followed by 4 symbolic bytes",
            "outside": "buffers longer than N; the unrestricted 20-digit value-equality query (does not finish in 30 min); stack use per frame (measured by the native replay only)",
        },
        assumptions=NET_STUBS + [
            "bytes::{Bytes,Buf} are the inline-array model of models/bytes (Buf for Cursor transcribed from bytes-1.0.1 including its panics)",
            "readers are entered with 1 <= pos <= len, as Frame::check/parse establish by get_byte",
            "Kani models the dev profile (overflow checks on); release-profile wrap-around is observed by the native replay",
        ],
    ),
}
