//! Scenario machinery shared by the store-level harnesses.
//!
//! A *shape* is a concrete sequence of operations over a pool of two concrete keys on an arbitrary
//! laid-out directory; what stays symbolic inside a shape is stated per harness (value bytes and
//! timestamps always; crash point, fault point and fault mode, surviving file lengths where the
//! property quantifies over them).  One harness instance per shape: each verdict is a solver
//! verdict over all those values; the shapes enumerate the structure (DESIGN.md section 9 (b)).
use super::*;

pub(crate) const K: [u8; 2] = [b'a', b'b'];

pub(crate) const CHK_READS: u32 = 1;
pub(crate) const CHK_STATS: u32 = 2;
pub(crate) const CHK_SIZES: u32 = 4;
pub(crate) const CHK_MONITOR: u32 = 8;
pub(crate) const CHK_HINT: u32 = 16;
/// only the direct check of every hint entry against its data file (no double recovery)
pub(crate) const CHK_HINT_DIRECT: u32 = 32;

/// Merge thresholds (fragmentation, dead_bytes, small_file) that make the real
/// `fileids_to_merge` select ...
#[derive(Clone, Copy)]
pub(crate) struct Thr(pub f64, pub u64, pub u64);
/// ... every file that has statistics
pub(crate) const T_ALL: Thr = Thr(1.0, u64::MAX, u64::MAX);
/// ... no file
pub(crate) const T_NONE: Thr = Thr(1.0, u64::MAX, 0);
/// ... files whose dead/(dead+live) exceeds 0.4 (the default)
pub(crate) const T_FRAG40: Thr = Thr(0.4, u64::MAX, 0);
/// ... files holding any dead bytes
pub(crate) const T_DEAD: Thr = Thr(1.0, 0, 0);
/// ... files shorter than 7 bytes
pub(crate) const T_SMALL7: Thr = Thr(1.0, u64::MAX, 7);

pub(crate) fn mk_conf_thr(max_file_size: u64, cache: usize, sync_always: bool, t: Thr) -> Config {
    let mut c = mk_conf(max_file_size, cache, sync_always);
    c.merge.thresholds.fragmentation = t.0;
    c.merge.thresholds.dead_bytes = t.1;
    c.merge.thresholds.small_file = t.2;
    c
}

/// Total length of the linked data files.
pub(crate) fn data_size() -> usize {
    let fs = mfs::__fs();
    let mut n = 0;
    let mut id = 0;
    while id < mfs::NID {
        if fs.inodes[dslot(id)].linked {
            n += fs.inodes[dslot(id)].len;
        }
        id += 1;
    }
    n
}

/// Number of linked, non-empty data files.
pub(crate) fn nonempty_data_files() -> usize {
    let fs = mfs::__fs();
    let mut n = 0;
    let mut id = 0;
    while id < mfs::NID {
        if fs.inodes[dslot(id)].linked && fs.inodes[dslot(id)].len > 0 {
            n += 1;
        }
        id += 1;
    }
    n
}

/// Ground truth for one data file, computed by the harness from the bytes in the model file system
/// and the real index: (records, live, dead, dead_bytes, length of the last record).
pub(crate) fn ground_truth(ctx: &Context, id: usize) -> (u64, u64, u64, u64, usize) {
    let fs = mfs::__fs();
    let ino = &fs.inodes[dslot(id)];
    let data = &mfs::__data()[dslot(id)];
    let (mut n, mut live, mut dead, mut dead_bytes, mut last) = (0u64, 0u64, 0u64, 0u64, 0usize);
    let mut pos = 0;
    let mut r = 0;
    while r < 8 {
        if pos < ino.len {
            // record: t, 1, key, tag, [1, v]
            let key = data[pos + 2];
            let len = if data[pos + 3] == 0 { DATA_DEL_LEN } else { DATA_PUT_LEN };
            let is_live = match ctx.keydir.get(&kb(key)) {
                Some(e) => e.fileid == id as u64 && e.pos == pos as u64,
                None => false,
            };
            if is_live {
                live += 1;
            } else {
                dead += 1;
                dead_bytes += len as u64;
            }
            n += 1;
            last = len;
            pos += len;
        }
        r += 1;
    }
    assert!(pos == ino.len, "harness: data file does not end on a record boundary");
    (n, live, dead, dead_bytes, last)
}

/// C19: the store's per-file counters equal ground truth, for every data file in the directory.
pub(crate) fn check_stats(ctx: &Context) {
    let fs = mfs::__fs();
    let mut id = 0;
    while id < mfs::NID {
        if fs.inodes[dslot(id)].linked {
            let (n, live, dead, dead_bytes, _) = ground_truth(ctx, id);
            match ctx.stats.get(&(id as u64)) {
                Some(st) => {
                    assert!(st.live_keys == live, "[C19] live_keys differs from the number of keys whose current value lives in the file");
                    assert!(st.dead_keys == dead, "[C19] dead_keys differs from the number of other entries in the file");
                    assert!(st.dead_bytes == dead_bytes, "[C19] dead_bytes differs from the size of the other entries in the file");
                }
                None => assert!(n == 0, "[C19] a data file holding records has no statistics"),
            }
        } else {
            assert!(ctx.stats.get(&(id as u64)).is_none(), "[C19] statistics kept for a file that is not in the directory");
        }
        id += 1;
    }
}

/// C14: the file-system monitor saw nothing but exclusive creates, appends by the creator, whole
/// file removals and growing ids; no data file exceeds max_file_size by more than one entry.
pub(crate) fn check_monitor(ctx: &Context) {
    let fs = mfs::__fs();
    assert!(!fs.c14_violation, "[C14] a file was created non-exclusively, written other than by appending through its creator, renamed, truncated, reopened for writing, or created with an id not above every earlier id");
    assert!(!fs.out_of_model, "model bound: the file-system model was used outside what it represents");
    let mut id = 0;
    while id < mfs::NID {
        // only files written by this process under this configuration (a laid-out file may stem
        // from a run with another max_file_size)
        if fs.inodes[dslot(id)].linked && fs.inodes[dslot(id)].born && fs.inodes[dslot(id)].len > 0 {
            let (_, _, _, _, last) = ground_truth(ctx, id);
            let before_last = (fs.inodes[dslot(id)].len - last) as u64;
            assert!(before_last <= ctx.conf.max_file_size, "[C14] a data file grew beyond max_file_size by more than one entry");
        }
        id += 1;
    }
}

pub(crate) struct Sc<const F: u32> {
    pub s: Store,
    pub m: Model,
    pub maxfile: u64,
    pub sync: bool,
    pub thr: Thr,
}

impl<const F: u32> Sc<F> {
    /// Open the (already laid out) directory with the real recovery.
    pub fn open(m: Model, maxfile: u64, sync: bool, thr: Thr) -> Self {
        let s = open_store(mk_conf_thr(maxfile, 2, sync, thr));
        let sc = Sc { s, m, maxfile, sync, thr };
        sc.after();
        sc
    }
    pub fn after(&self) {
        if F & CHK_READS != 0 {
            check_reads(&self.s, &K, &self.m);
        }
        if F & CHK_STATS != 0 {
            check_stats(&self.s.ctx);
        }
        if F & CHK_MONITOR != 0 {
            check_monitor(&self.s.ctx);
        }
        if F & (CHK_HINT | CHK_HINT_DIRECT) != 0 {
            check_hint_entries();
        }
    }
    pub fn put(&mut self, ki: usize) {
        let v: u8 = kani::any();
        must(self.s.w.put(kb(K[ki]), kb(v)));
        self.m[ki] = Some(v);
        self.after();
    }
    pub fn del(&mut self, ki: usize) {
        let was = must(self.s.w.delete(kb(K[ki])));
        if F & CHK_READS != 0 {
            assert!(was == self.m[ki].is_some(), "delete's return value differs from the reference map");
        }
        self.m[ki] = None;
        self.after();
    }
    pub fn merge(&mut self) {
        let before = data_size();
        must(self.s.w.merge());
        if F & CHK_SIZES != 0 {
            assert!(data_size() <= before, "[C13] a merge pass increased the total size of the data files");
            // thresholds T_ALL make every data file that holds an entry eligible: the store must then be
            // exactly as large as a fresh store holding the live pairs (each once, nothing dead kept)
            if self.thr.1 == u64::MAX && self.thr.2 == u64::MAX {
                let live = (self.m[0].is_some() as usize) + (self.m[1].is_some() as usize);
                assert!(data_size() == live * DATA_PUT_LEN, "[C13] after a merge of every data file the store is not exactly as large as the live key-value pairs");
            }
        }
        self.after();
    }
    /// C13: a second merge with the same thresholds changes nothing further (sizes of the data files).
    pub fn merge_again(&mut self) {
        let before = data_size();
        let nfiles = nonempty_data_files();
        must(self.s.w.merge());
        if F & CHK_SIZES != 0 {
            assert!(data_size() == before, "[C13] repeating a merge changed the total size of the data files");
            assert!(nonempty_data_files() == nfiles, "[C13] repeating a merge changed the number of non-empty data files");
        }
        self.after();
    }
    /// Close (drop order and effects of `Bitcask`'s owners are irrelevant here: nothing is buffered
    /// after an operation returns) and open the same directory again through the real recovery.
    pub fn reopen(&mut self, maxfile: u64, thr: Thr) {
        let s = open_store(mk_conf_thr(maxfile, 2, self.sync, thr));
        std::mem::forget(std::mem::replace(&mut self.s, s));
        self.maxfile = maxfile;
        self.thr = thr;
        self.after();
    }
    pub fn finish(self) {
        let m = self.m;
        std::mem::forget(self);
        if F & CHK_HINT != 0 {
            hint_equivalence(&m);
        }
    }
}

// ------------------------------------------------------------------------------------------------
// Shapes.  Each lays out a directory, opens it and runs a fixed operation sequence.

/// S1: [put a, del a] on disk (the tombstone must win during the scan); every write rolls over
/// (max_file_size 0); delete / re-put; reopen.
pub(crate) fn shape_1<const F: u32>() {
    let mut m: Model = [None, None];
    mfs::__preexisting(dslot(0));
    let v0: u8 = kani::any();
    lay_data(dslot(0), 0, K[0], Some(v0));
    lay_data(dslot(0), 0, K[0], None);
    let mut sc = Sc::<F>::open(m, 0, false, T_NONE);
    sc.put(1);
    sc.del(1);
    sc.put(0);
    kani::cover!(sc.s.w.active_fileid == 4, "three rollovers");
    sc.reopen(0, T_NONE);
    sc.finish();
}

/// S2: empty directory, one big file: overwrite, delete, delete of an absent key, merge of the
/// active file (everything selected), write after the merge, reopen (hint path).
pub(crate) fn shape_2<const F: u32>() {
    let m: Model = [None, None];
    let mut sc = Sc::<F>::open(m, u64::MAX, false, T_ALL);
    sc.put(0);
    sc.put(0);
    sc.del(1);
    sc.put(1);
    sc.del(0);
    sc.merge();
    kani::cover!(mfs::__fs().inodes[hslot(1)].len > 0, "the merge wrote a hint entry");
    sc.put(0);
    sc.reopen(u64::MAX, T_ALL);
    sc.finish();
}

/// S3: an older file with live values and a newer file holding only a tombstone; the thresholds
/// select the tombstone's file (fragmentation 1.0 > 0.4) and, since 789eab8, everything older; the
/// deleted key must stay deleted after the merge and after a reopen.
pub(crate) fn shape_3<const F: u32>() {
    let mut m: Model = [None, None];
    mfs::__preexisting(dslot(0));
    mfs::__preexisting(dslot(1));
    let (va, vb): (u8, u8) = (kani::any(), kani::any());
    lay_data(dslot(0), 0, K[0], Some(va));
    lay_data(dslot(0), 0, K[1], Some(vb));
    lay_data(dslot(0), 0, K[1], Some(vb));
    lay_data(dslot(1), 0, K[0], None);
    m[1] = Some(vb);
    let mut sc = Sc::<F>::open(m, u64::MAX, false, T_FRAG40);
    sc.merge();
    sc.reopen(u64::MAX, T_NONE);
    sc.finish();
}

/// S4: a merge output with its hint file on disk next to an older unmerged file; delete, merge of
/// everything with max_file_size 0 (every copied record rolls the merge over into a new output
/// file), reopen.
pub(crate) fn shape_4<const F: u32>() {
    let mut m: Model = [None, None];
    mfs::__preexisting(dslot(0));
    let v0: u8 = kani::any();
    lay_data(dslot(0), 0, K[0], Some(v0));
    mfs::__preexisting(dslot(1));
    mfs::__preexisting(hslot(1));
    let (va, vb): (u8, u8) = (kani::any(), kani::any());
    let (p0, l0) = lay_data(dslot(1), 0, K[1], Some(vb));
    lay_hint(hslot(1), 0, l0, p0, K[1]);
    let (p1, l1) = lay_data(dslot(1), 0, K[0], Some(va));
    lay_hint(hslot(1), 0, l1, p1, K[0]);
    m[0] = Some(va);
    m[1] = Some(vb);
    let mut sc = Sc::<F>::open(m, 0, false, T_ALL);
    sc.merge();
    kani::cover!(mfs::__fs().inodes[dslot(4)].len > 0, "the merge rolled over into a second output file");
    sc.reopen(u64::MAX, T_ALL);
    sc.finish();
}

/// S5: dead bytes select one file only (the newest with garbage); overwrite across files.
pub(crate) fn shape_5<const F: u32>() {
    let mut m: Model = [None, None];
    mfs::__preexisting(dslot(0));
    mfs::__preexisting(dslot(1));
    let (va, vb): (u8, u8) = (kani::any(), kani::any());
    lay_data(dslot(0), 0, K[1], Some(vb));
    lay_data(dslot(1), 0, K[0], Some(va));
    m[0] = Some(va);
    m[1] = Some(vb);
    let mut sc = Sc::<F>::open(m, u64::MAX, false, T_DEAD);
    sc.put(0); // file 1's entry for `a` becomes dead
    sc.merge(); // selects file 1 (dead bytes) and the older file 0; the active file 2 has none
    sc.del(1);
    sc.merge();
    sc.reopen(u64::MAX, T_NONE);
    sc.finish();
}

/// S6: an older file holding ONLY a dead value (`a`, deleted later) that is not eligible on its
/// own (dead bytes 6 are not > 6, fragmentation 1.0 is not > 1.0) and a newer file holding the
/// tombstone plus garbage (dead bytes 10 > 6): the merge selects the newer file and must take the
/// older one along, or `a` comes back after the restart.
pub(crate) fn shape_6<const F: u32>() {
    let mut m: Model = [None, None];
    mfs::__preexisting(dslot(0));
    mfs::__preexisting(dslot(1));
    let (va, vb, vc): (u8, u8, u8) = (kani::any(), kani::any(), kani::any());
    lay_data(dslot(0), 0, K[0], Some(va));
    lay_data(dslot(1), 0, K[0], None);
    lay_data(dslot(1), 0, K[1], Some(vb));
    lay_data(dslot(1), 0, K[1], Some(vc));
    m[1] = Some(vc);
    let mut sc = Sc::<F>::open(m, u64::MAX, false, Thr(1.0, 6, 0));
    sc.merge();
    kani::cover!(!mfs::__fs().inodes[dslot(1)].linked, "the tombstone's file was merged");
    sc.reopen(u64::MAX, T_NONE);
    sc.finish();
}

/// S8 (first half of S2): empty directory, one big file: overwrite, delete of an absent key, put,
/// delete of a present key.
pub(crate) fn shape_8<const F: u32>() {
    let m: Model = [None, None];
    let mut sc = Sc::<F>::open(m, u64::MAX, false, T_ALL);
    sc.put(0);
    sc.put(0);
    sc.del(1);
    sc.put(1);
    sc.del(0);
    sc.finish();
}

/// S9 (second half of S2): a live value and garbage in the active file; merge of the active file
/// (everything selected), write after the merge, reopen through the hint file.
pub(crate) fn shape_9<const F: u32>() {
    let m: Model = [None, None];
    let mut sc = Sc::<F>::open(m, u64::MAX, false, T_ALL);
    sc.put(0);
    sc.put(1);
    sc.del(0);
    sc.merge();
    kani::cover!(mfs::__fs().inodes[hslot(1)].len > 0, "the merge wrote a hint entry");
    sc.put(0);
    sc.reopen(u64::MAX, T_ALL);
    sc.finish();
}

/// S7: the smallest rollover shape: empty directory, every write rolls over; put a, put b, and each
/// is read back at once in the same process (the entry that triggers a rollover must stay readable).
pub(crate) fn shape_7<const F: u32>() {
    let m: Model = [None, None];
    let mut sc = Sc::<F>::open(m, 0, false, T_NONE);
    sc.put(0);
    sc.put(1);
    sc.finish();
}

/// S10: partial selection.  An older file holding only a tombstone (dead bytes > 0: eligible) and a
/// newer clean file holding a live value (not eligible): the merge must rewrite the eligible file
/// only - what is live in a file it leaves alone must not be copied (the store would grow).
pub(crate) fn shape_10<const F: u32>() {
    let mut m: Model = [None, None];
    mfs::__preexisting(dslot(0));
    mfs::__preexisting(dslot(1));
    let vb: u8 = kani::any();
    lay_data(dslot(0), 0, K[0], None);
    lay_data(dslot(1), 0, K[1], Some(vb));
    m[1] = Some(vb);
    let mut sc = Sc::<F>::open(m, u64::MAX, false, T_DEAD);
    sc.merge();
    kani::cover!(!mfs::__fs().inodes[dslot(0)].linked && mfs::__fs().inodes[dslot(1)].linked, "the older file was merged, the newer one left alone");
    if F & CHK_SIZES != 0 {
        assert!(data_size() == DATA_PUT_LEN, "[C13] a merge kept dead data of an eligible file or copied live data of a file it left alone");
    }
    sc.finish();
}

/// S11: empty directory; put a, put b, del a; merge of everything; the same merge again (idempotence).
pub(crate) fn shape_11<const F: u32>() {
    let m: Model = [None, None];
    let mut sc = Sc::<F>::open(m, u64::MAX, false, T_ALL);
    sc.put(0);
    sc.put(1);
    sc.del(0);
    sc.merge();
    sc.merge_again();
    sc.finish();
}

/// S13: THREE live keys in one file; merge of everything with max_file_size 0 (the output rolls over
/// after every copied entry: three output files - an entry copied AFTER a rollover needs a third key);
/// every key read back after the merge and after a reopen through the hint files.
pub(crate) fn shape_13() {
    const K3: [u8; 3] = [b'a', b'b', b'c'];
    mfs::__preexisting(dslot(0));
    let v: [u8; 3] = kani::any();
    lay_data(dslot(0), 0, K3[0], Some(v[0]));
    lay_data(dslot(0), 0, K3[1], Some(v[1]));
    lay_data(dslot(0), 0, K3[2], Some(v[2]));
    let mut s = open_store(mk_conf_thr(0, 2, false, T_ALL));
    must(s.w.merge());
    kani::cover!(mfs::__fs().inodes[dslot(4)].len > 0, "the merge wrote a third output file");
    let mut i = 0;
    while i < 3 {
        let g = must(s.r.get(kb(K3[i])));
        assert!(v1(&g) == Some(v[i]), "a key reads differently after a merge rolling over into three files");
        std::mem::forget(g);
        i += 1;
    }
    check_hint_entries();
    std::mem::forget(s);
    let s = open_store(mk_conf_thr(u64::MAX, 2, false, T_NONE));
    let mut i = 0;
    while i < 3 {
        let g = must(s.r.get(kb(K3[i])));
        assert!(v1(&g) == Some(v[i]), "a key reads differently after a merge rolling over into three files and a restart");
        std::mem::forget(g);
        i += 1;
    }
    std::mem::forget(s);
}

/// S14 (C02: "reopening any number of times without writing changes nothing"): a directory with a
/// deleted key, an overwritten key and a merge output with its hint file; open, reopen, reopen -
/// after each: both keys read as the reference map, the statistics equal ground truth, no existing
/// file changed its length, and each open added exactly one new empty data file above every id.
pub(crate) fn shape_14() {
    let mut m: Model = [None, None];
    mfs::__preexisting(dslot(0));
    mfs::__preexisting(hslot(0));
    mfs::__preexisting(dslot(1));
    let (va, vb, vc): (u8, u8, u8) = (kani::any(), kani::any(), kani::any());
    let (p0, l0) = lay_data(dslot(0), 0, K[1], Some(vb));
    lay_hint(hslot(0), 0, l0, p0, K[1]);
    lay_data(dslot(1), 0, K[0], Some(va));
    lay_data(dslot(1), 0, K[1], Some(vc));
    lay_data(dslot(1), 0, K[0], None);
    m[1] = Some(vc);
    let size0 = data_size();
    let mut sc = Sc::<{ CHK_READS | CHK_STATS | CHK_MONITOR }>::open(m, u64::MAX, false, T_NONE);
    assert!(sc.s.w.active_fileid == 2 && data_size() == size0, "[C02] opening a store changed its data or did not start a new file above every id");
    sc.reopen(u64::MAX, T_NONE);
    assert!(sc.s.w.active_fileid == 3 && data_size() == size0, "[C02] reopening without writing changed the store");
    sc.reopen(u64::MAX, T_NONE);
    assert!(sc.s.w.active_fileid == 4 && data_size() == size0, "[C02] reopening twice without writing changed the store");
    sc.finish();
}

/// 3-byte value.
pub(crate) fn kb3(v: [u8; 3]) -> Bytes {
    let mut d = [0u8; bytes::BCAP];
    d[0] = v[0];
    d[1] = v[1];
    d[2] = v[2];
    Bytes::__from_array(d, 3)
}
fn is3(o: &Option<Bytes>, v: [u8; 3]) -> bool {
    match o {
        Some(b) => b.len() == 3 && b.__byte(0) == v[0] && b.__byte(1) == v[1] && b.__byte(2) == v[2],
        None => false,
    }
}

/// S12 (C01: "larger than any internal buffer or than the configured file size"): empty directory,
/// max_file_size 0; put a with a 3-byte value - its record (8 bytes) is as long as the (scaled) write
/// buffer, so `BufWriter` hands it to the file outside its buffer / in more than one call, it is
/// longer than one (scaled) `BufReader` fill, and it alone exceeds max_file_size; read back at once;
/// a small put of b (rollover again); both read back; reopen through the real scan; both read back
/// (a again through a fresh reader that has to map the file).
pub(crate) fn shape_12() {
    let mut sc = Sc::<0>::open([None, None], 0, false, T_NONE);
    let va: [u8; 3] = kani::any();
    must(sc.s.w.put(kb(K[0]), kb3(va)));
    let g = must(sc.s.r.get(kb(K[0])));
    assert!(is3(&g, va), "get of an entry as large as the write buffer differs from what was put");
    std::mem::forget(g);
    let vb: u8 = kani::any();
    must(sc.s.w.put(kb(K[1]), kb(vb)));
    let g = must(sc.s.r.get(kb(K[0])));
    assert!(is3(&g, va), "get of the large entry differs after a later write");
    std::mem::forget(g);
    let g = must(sc.s.r.get(kb(K[1])));
    assert!(v1(&g) == Some(vb), "get of the small entry differs");
    std::mem::forget(g);
    kani::cover!(sc.s.w.active_fileid == 2, "both writes rolled over");
    sc.reopen(0, T_NONE);
    let g = must(sc.s.r.get(kb(K[0])));
    assert!(is3(&g, va), "get of the large entry differs after a reopen");
    std::mem::forget(g);
    let g = must(sc.s.r.get(kb(K[1])));
    assert!(v1(&g) == Some(vb), "get of the small entry differs after a reopen");
    std::mem::forget(g);
    sc.finish();
}

// ------------------------------------------------------------------------------------------------
// Crash (C03), power loss (C09) and fault (C20) machinery.

/// Model after each completed step of a shape, with the file-system step count at which the
/// operation returned.
pub(crate) struct Hist {
    pub n: usize,
    pub end: [usize; 8],
    pub m: [Model; 8],
}
impl Hist {
    pub fn new() -> Self {
        Hist { n: 0, end: [0; 8], m: [[None, None]; 8] }
    }
    pub fn push(&mut self, m: Model) {
        self.end[self.n] = mfs::__fs().steps;
        self.m[self.n] = m;
        self.n += 1;
    }
    /// (acknowledged model, model if the single operation in flight at the kill took effect) for a
    /// kill before the execution of file-system step `c`.
    pub fn expect(&self, init: Model, c: usize) -> (Model, Model) {
        let mut acked = init;
        let mut next = if self.n > 0 { self.m[0] } else { init };
        let mut i = 0;
        while i < 8 {
            if i < self.n && c >= self.end[i] {
                acked = self.m[i];
                next = if i + 1 < self.n { self.m[i + 1] } else { self.m[i] };
            }
            i += 1;
        }
        (acked, next)
    }
}

/// After the run: install the directory the kill left behind (and, for power loss, cut every file
/// to a symbolic length between what was fsynced and what was written), run the REAL recovery,
/// and compare every key with the acknowledged / in-flight expectation.
pub(crate) fn recover_and_check(h: &Hist, init: Model, power_loss: bool, tag_crash: bool) {
    let fs = mfs::__fs();
    let c = fs.crash_at;
    kani::cover!(c <= fs.steps, "the kill point lies within the run");
    kani::assume(c <= fs.steps);
    if !fs.snap_taken {
        mfs::__snapshot(); // the kill fell after the last call
    }
    let (acked, next) = h.expect(init, c);
    if power_loss {
        // worst case of the property's failure model: per file, everything after its last
        // completed fsync is lost (a symbolic surviving length makes the directory handed to the
        // recovery symbolic and exhausts memory - measured)
        let mut s = 0;
        while s < mfs::NSLOT {
            fs.snap_len[s] = fs.snap_synced[s];
            s += 1;
        }
    }
    mfs::__install_snapshot();
    let fs = mfs::__fs();
    fs.crash_at = usize::MAX;
    let (keydir, stats, active) = match rebuild_storage("d") {
        Ok(x) => x,
        Err(_) => {
            if tag_crash {
                assert!(false, "[C03] the directory left by a kill cannot be opened");
            } else {
                assert!(false, "[C09] the directory left by a power loss cannot be opened");
            }
            loop {}
        }
    };
    // The store that opens this directory writes into a NEW file `active`.  Recovery prefers a hint
    // file over the data file of the same id, so a left-over file of either kind with an id >= `active`
    // would shadow (or be mistaken for) what is acknowledged after the restart: the directory the
    // kill leaves behind must not contain one.
    {
        let fs = mfs::__fs();
        let mut id = 0;
        while id < mfs::NID {
            if fs.inodes[dslot(id)].linked || fs.inodes[hslot(id)].linked {
                if tag_crash {
                    assert!((id as u64) < active, "[C03] after a kill the recovery reuses the id of a file that is still in the directory (a left-over hint file would hide later acknowledged writes)");
                } else {
                    assert!((id as u64) < active, "[C09] after a power loss the recovery reuses the id of a file that is still in the directory");
                }
            }
            id += 1;
        }
    }
    let mut ki = 0;
    while ki < 2 {
        let got = read_via(&keydir, K[ki]);
        let ok = got == Some(acked[ki]) || got == Some(next[ki]);
        if tag_crash {
            assert!(ok, "[C03] after a kill a key reads neither its acknowledged value nor the in-flight one (or its data cannot be read)");
        } else {
            assert!(ok, "[C09] after a power loss with sync=always an acknowledged write is not readable");
        }
        ki += 1;
    }
    std::mem::forget(keydir);
    std::mem::forget(stats);
}

/// Resolve a key through an index the way `Reader::get` does: `Some(value-or-None)`, or `None` if
/// the indexed location cannot be decoded (out of the file, torn record).
pub(crate) fn read_via(keydir: &DashMap<Bytes, KeyDirEntry>, key: u8) -> Option<Option<u8>> {
    match keydir.get(&kb(key)) {
        Some(e) => {
            let flen = mfs::__fs().inodes[dslot(e.fileid as usize)].len as u64;
            if !mfs::__fs().inodes[dslot(e.fileid as usize)].linked || e.pos + e.len > flen {
                return None; // the real reader would index past its mapping and panic
            }
            let mut d = LogDir::new(0);
            let r = unsafe { d.read::<DataFileEntry, _>("d", e.fileid, e.len, e.pos) };
            match r {
                Ok(ent) => {
                    if ent.key != kb(key) {
                        return None;
                    }
                    Some(v1(&ent.value))
                }
                Err(_) => None,
            }
        }
        None => Some(None),
    }
}

/// Crash shape A: values on disk, then delete / merge of everything / put, in one big file.
/// The kill point ranges over every file-system call of the run, the initial recovery included.
pub(crate) fn crash_shape_a(crash_at: usize, sync: bool, power_loss: bool, tag_crash: bool) {
    let mut init: Model = [None, None];
    mfs::__preexisting(dslot(0));
    let (va, vb): (u8, u8) = (kani::any(), kani::any());
    lay_data(dslot(0), 0, K[0], Some(va));
    lay_data(dslot(0), 0, K[1], Some(vb));
    init = [Some(va), Some(vb)];
    mfs::__fs().crash_at = crash_at;
    let mut h = Hist::new();
    let mut sc = Sc::<0>::open(init, u64::MAX, sync, T_ALL);
    h.push(sc.m); // the open itself: nothing changes
    sc.del(0);
    h.push(sc.m);
    sc.merge();
    h.push(sc.m);
    sc.put(1);
    h.push(sc.m);
    sc.finish();
    recover_and_check(&h, init, power_loss, tag_crash);
}

/// Crash shape B: empty directory, every write rolls over (max_file_size 0): put, put, delete.
pub(crate) fn crash_shape_b(crash_at: usize, sync: bool, power_loss: bool, tag_crash: bool) {
    let init: Model = [None, None];
    mfs::__fs().crash_at = crash_at;
    let mut h = Hist::new();
    let mut sc = Sc::<0>::open(init, 0, sync, T_NONE);
    h.push(sc.m);
    sc.put(0);
    h.push(sc.m);
    sc.put(1);
    h.push(sc.m);
    sc.del(0);
    h.push(sc.m);
    sc.finish();
    recover_and_check(&h, init, power_loss, tag_crash);
}

/// Crash shape C: a merge that rolls over into several output files (max_file_size 0), killed anywhere.
pub(crate) fn crash_shape_c(crash_at: usize, sync: bool, power_loss: bool, tag_crash: bool) {
    mfs::__preexisting(dslot(0));
    let (va, vb): (u8, u8) = (kani::any(), kani::any());
    lay_data(dslot(0), 0, K[0], Some(va));
    lay_data(dslot(0), 0, K[1], Some(vb));
    let init: Model = [Some(va), Some(vb)];
    mfs::__fs().crash_at = crash_at;
    let mut h = Hist::new();
    let mut sc = Sc::<0>::open(init, 0, sync, T_ALL);
    h.push(sc.m);
    sc.merge();
    h.push(sc.m);
    sc.finish();
    recover_and_check(&h, init, power_loss, tag_crash);
}

/// Crash shape D: the value of `a` in an older file, its tombstone (and a live `b`) in a newer one;
/// merge of everything.  A kill between the removals of the two source files must not bring `a`
/// back (the sources have to go oldest first).
pub(crate) fn crash_shape_d(crash_at: usize, sync: bool, power_loss: bool, tag_crash: bool) {
    mfs::__preexisting(dslot(0));
    mfs::__preexisting(dslot(1));
    let (va, vb): (u8, u8) = (kani::any(), kani::any());
    lay_data(dslot(0), 0, K[0], Some(va));
    lay_data(dslot(1), 0, K[0], None);
    lay_data(dslot(1), 0, K[1], Some(vb));
    let init: Model = [None, Some(vb)];
    mfs::__fs().crash_at = crash_at;
    let mut h = Hist::new();
    let mut sc = Sc::<0>::open(init, u64::MAX, sync, T_ALL);
    h.push(sc.m);
    sc.merge();
    h.push(sc.m);
    sc.finish();
    recover_and_check(&h, init, power_loss, tag_crash);
}

// ---- faults (C20)

/// One operation under fault injection: returns whether it reported an error.
pub(crate) fn faulty_put(sc: &mut Sc<0>, ki: usize) -> Option<(Option<u8>, Option<u8>)> {
    let before = mfs::__fs().fail_hit;
    let v: u8 = kani::any();
    let r = sc.s.w.put(kb(K[ki]), kb(v));
    let hit = mfs::__fs().fail_hit && !before;
    let old = sc.m[ki];
    // `hit` is concrete in an instance; the result's discriminant is not foldable (niche-encoded
    // Result<(), Error>), so the control flow below follows `hit` and the solver checks agreement
    if hit {
        assert!(r.is_err(), "[C20] a file-system call failed on behalf of a put, yet the put reported success");
    } else {
        assert!(r.is_ok(), "[C20] an operation failed although no fault was injected into it");
    }
    let failed = hit;
    std::mem::forget(r);
    fault_reads(sc, ki, old, Some(v), failed);
    if failed { Some((old, Some(v))) } else { None }
}
pub(crate) fn faulty_del(sc: &mut Sc<0>, ki: usize) -> Option<(Option<u8>, Option<u8>)> {
    let before = mfs::__fs().fail_hit;
    let r = sc.s.w.delete(kb(K[ki]));
    let hit = mfs::__fs().fail_hit && !before;
    let old = sc.m[ki];
    if hit {
        assert!(r.is_err(), "[C20] a file-system call failed on behalf of a delete, yet the delete reported success");
    } else {
        assert!(r.is_ok(), "[C20] an operation failed although no fault was injected into it");
    }
    let failed = hit;
    std::mem::forget(r);
    fault_reads(sc, ki, old, None, failed);
    if failed { Some((old, None)) } else { None }
}
pub(crate) fn faulty_merge(sc: &mut Sc<0>) -> bool {
    let before = mfs::__fs().fail_hit;
    let r = sc.s.w.merge();
    let hit = mfs::__fs().fail_hit && !before;
    if hit {
        assert!(r.is_err(), "[C20] a file-system call failed on behalf of a merge, yet the merge reported success");
    } else {
        assert!(r.is_ok(), "[C20] an operation failed although no fault was injected into it");
    }
    let failed = hit;
    std::mem::forget(r);
    // a merge changes no key, failed or not
    let susp = suspend_faults();
    let g0 = sc.s.r.get(kb(K[0]));
    let g1 = sc.s.r.get(kb(K[1]));
    resume_faults(susp);
    match (&g0, &g1) {
        (Ok(a), Ok(b)) => assert!(v1(a) == sc.m[0] && v1(b) == sc.m[1], "[C20] a (failed) merge changed what a key reads"),
        _ => assert!(false, "[C20] a key cannot be read after a (failed) merge"),
    }
    std::mem::forget(g0);
    std::mem::forget(g1);
    failed
}
/// After an operation on key `ki`: the other key reads exactly its model value; `ki` reads the new
/// value if the operation succeeded, the old or the new one if it failed (the model adopts what
/// the store reports, so that later steps are exact again).
/// The fault is meant for the k-th file-system call of the WRITE-side operations: while the harness
/// reads back (its own gets), injection is suspended and the pending fault point is moved past the
/// calls the reads issued.
fn suspend_faults() -> (usize, usize) {
    let fs = mfs::__fs();
    let saved = fs.fail_at;
    fs.fail_at = usize::MAX;
    (saved, fs.steps)
}
fn resume_faults(s: (usize, usize)) {
    let fs = mfs::__fs();
    let used = fs.steps - s.1;
    fs.fail_at = if s.0 == usize::MAX || fs.fail_hit || s.0 < s.1 { s.0 } else { s.0 + used };
}

fn fault_reads(sc: &mut Sc<0>, ki: usize, old: Option<u8>, new: Option<u8>, failed: bool) {
    let susp = suspend_faults();
    fault_reads_inner(sc, ki, old, new, failed);
    resume_faults(susp);
}
fn fault_reads_inner(sc: &mut Sc<0>, ki: usize, old: Option<u8>, new: Option<u8>, failed: bool) {
    let other = 1 - ki;
    match sc.s.r.get(kb(K[other])) {
        Ok(g) => assert!(v1(&g) == sc.m[other], "[C20] an operation on one key changed what another key reads"),
        Err(_) => assert!(false, "[C20] another key cannot be read after an operation (failed or not)"),
    }
    match sc.s.r.get(kb(K[ki])) {
        Ok(g) => {
            let got = v1(&g);
            if failed {
                assert!(got == old || got == new, "[C20] after a failed operation its key reads neither the old nor the new value");
            } else {
                assert!(got == new, "[C20] an acknowledged operation does not read back");
            }
            sc.m[ki] = got;
        }
        Err(_) => assert!(false, "[C20] a key cannot be read after an operation on it (failed or not)"),
    }
}
/// After the run: a restart must succeed and agree with the in-process view on every key that a
/// later acknowledged operation determined; a key whose last operation failed reads old or new.
pub(crate) fn fault_restart(sc: Sc<0>, undetermined: [Option<(Option<u8>, Option<u8>)>; 2]) {
    let m = sc.m;
    sc.finish();
    mfs::__fs().fail_at = usize::MAX;
    mfs::__fs().fail_next_write_slot = usize::MAX;
    let (keydir, stats, active) = match rebuild_storage("d") {
        Ok(x) => x,
        Err(_) => {
            assert!(false, "[C20] the directory cannot be opened after a failed disk operation");
            loop {}
        }
    };
    // as after a kill: no left-over file (of either kind) may carry the id the restarted store is
    // about to write into - recovery prefers a hint file over the data file of the same id
    {
        let fs = mfs::__fs();
        let mut id = 0;
        while id < mfs::NID {
            if fs.inodes[dslot(id)].linked || fs.inodes[hslot(id)].linked {
                assert!((id as u64) < active, "[C20] after a failed disk operation the restarted store reuses the id of a file that is still in the directory (a left-over hint file would hide later acknowledged writes)");
            }
            id += 1;
        }
    }
    let mut ki = 0;
    while ki < 2 {
        let got = read_via(&keydir, K[ki]);
        match undetermined[ki] {
            None => assert!(got == Some(m[ki]), "[C20] after a restart an acknowledged operation does not read back"),
            Some((old, new)) => assert!(got == Some(old) || got == Some(new), "[C20] after a restart the key of the failed operation reads neither the old nor the new value"),
        }
        ki += 1;
    }
    std::mem::forget(keydir);
    std::mem::forget(stats);
}

/// Arm ONE fault: file-system call number `at` counted from now fails; mode 0 = error without
/// effect, mode 1 = (writes of >= 2 bytes) a short write of `short` bytes followed by an error on
/// the next write to that file.  Concrete per harness instance: a symbolic fault point makes the
/// whole run symbolic and does not finish in 40 min (measured).
fn arm_fault(at: usize, mode: u8, short: usize) {
    let fs = mfs::__fs();
    fs.fail_at = fs.steps + at;
    fs.fail_mode = mode;
    fs.short_len = short;
}

/// Fault shape A: rollover on every write (max_file_size 0): put a, put b, del a, put a; one fault
/// at a symbolic call (any kind: create, write — also as a short write —, fsync), symbolic mode.
pub(crate) fn fault_shape_a(sync: bool, at: usize, mode: u8) {
    let init: Model = [None, None];
    let mut sc = Sc::<0>::open(init, 0, sync, T_NONE);
    arm_fault(at, mode, 3);
    let _ = faulty_put(&mut sc, 0);
    let ub = faulty_put(&mut sc, 1); // the last operation on `b`
    let _ = faulty_del(&mut sc, 0);
    let ua = faulty_put(&mut sc, 0); // the last operation on `a`: determines it unless it failed itself
    kani::cover!(mfs::__fs().fail_hit, "the fault was injected");
    fault_restart(sc, [ua, ub]);
}

/// Fault shape B: one big file with values on disk; del a, merge of everything, put b.
pub(crate) fn fault_shape_b(sync: bool, at: usize, mode: u8) {
    mfs::__preexisting(dslot(0));
    let (va, vb): (u8, u8) = (kani::any(), kani::any());
    lay_data(dslot(0), 0, K[0], Some(va));
    lay_data(dslot(0), 0, K[1], Some(vb));
    let init: Model = [Some(va), Some(vb)];
    let mut sc = Sc::<0>::open(init, u64::MAX, sync, T_ALL);
    arm_fault(at, mode, 3);
    let ua = faulty_del(&mut sc, 0);
    let _fm = faulty_merge(&mut sc);
    let ub = faulty_put(&mut sc, 1);
    kani::cover!(mfs::__fs().fail_hit, "the fault was injected");
    fault_restart(sc, [ua, ub]);
}

/// C12 (direct form): every entry `(len, pos, key)` of every hint file addresses, in the data file
/// of the SAME id, a record of that length holding that key and a value.
pub(crate) fn check_hint_entries() {
    let fs = mfs::__fs();
    let mut id = 0;
    while id < mfs::NID {
        if fs.inodes[hslot(id)].linked {
            let h = &mfs::__data()[hslot(id)];
            let d = &mfs::__data()[dslot(id)];
            let hl = fs.inodes[hslot(id)].len;
            let dl = fs.inodes[dslot(id)].len;
            assert!(hl % HINT_LEN == 0, "harness: hint file does not end on an entry boundary");
            let mut e = 0;
            while e < 4 {
                if e * HINT_LEN < hl {
                    let (len, pos, key) = (h[e * HINT_LEN + 1] as usize, h[e * HINT_LEN + 2] as usize, h[e * HINT_LEN + 4]);
                    assert!(fs.inodes[dslot(id)].linked && pos + len <= dl, "[C12] a hint entry points outside the data file of its id");
                    assert!(len == DATA_PUT_LEN && d[pos + 2] == key && d[pos + 3] == 1, "[C12] a hint entry does not address a value record of its key in the data file of its id");
                }
                e += 1;
            }
        }
        id += 1;
    }
}

/// Smallest fault shape M0 (quick tier): empty directory, every write rolls over; put a with the
/// fault at call `at` of that put (0 = the write, 1 = the creation of the next active file), then a
/// fault-free put b, and b is read back in the same process.  Decides: the failing call is reported
/// by the put it belongs to; a later acknowledged put reads back.
pub(crate) fn fault_shape_m0(at: usize, mode: u8) {
    let init: Model = [None, None];
    let mut sc = Sc::<0>::open(init, 0, false, T_NONE);
    arm_fault(at, mode, 3);
    let va: u8 = kani::any();
    let r = sc.s.w.put(kb(K[0]), kb(va));
    assert!(mfs::__fs().fail_hit, "harness: the fault was not injected into the first put");
    assert!(r.is_err(), "[C20] a file-system call failed on behalf of a put, yet the put reported success");
    std::mem::forget(r);
    let vb: u8 = kani::any();
    let r2 = sc.s.w.put(kb(K[1]), kb(vb));
    assert!(r2.is_ok(), "[C20] an operation failed although no fault was injected into it");
    std::mem::forget(r2);
    match sc.s.r.get(kb(K[1])) {
        Ok(g) => assert!(v1(&g) == Some(vb), "[C20] an acknowledged operation after a failed one does not read back"),
        Err(_) => assert!(false, "[C20] an acknowledged operation after a failed one cannot be read"),
    }
    sc.finish();
}

/// Fault shape M5: empty directory, every write rolls over; put a with the fault at call `at` of that
/// put (1 = the creation of the next active file: the entry is in the file, the put reports an
/// error and the index does not know the key); then an acknowledged delete of `a`; restart.  The
/// deleted key must stay deleted: the delete has to reach the disk whatever the index says.
pub(crate) fn fault_shape_m5(at: usize, mode: u8) {
    let init: Model = [None, None];
    let mut sc = Sc::<0>::open(init, 0, false, T_NONE);
    arm_fault(at, mode, 3);
    let va: u8 = kani::any();
    let r = sc.s.w.put(kb(K[0]), kb(va));
    assert!(mfs::__fs().fail_hit, "harness: the fault was not injected into the first put");
    assert!(r.is_err(), "[C20] a file-system call failed on behalf of a put, yet the put reported success");
    std::mem::forget(r);
    let r2 = sc.s.w.delete(kb(K[0]));
    assert!(r2.is_ok(), "[C20] an operation failed although no fault was injected into it");
    std::mem::forget(r2);
    match sc.s.r.get(kb(K[0])) {
        Ok(g) => assert!(v1(&g) == None, "[C20] an acknowledged delete after a failed put does not read back"),
        Err(_) => assert!(false, "[C20] a key cannot be read after an acknowledged delete"),
    }
    sc.m[0] = None;
    fault_restart(sc, [None, None]);
}

/// Fault shape R (a fault during the start-up scan): a directory with a hinted merge output and a
/// newer file holding an overwrite and a tombstone; the real `rebuild_storage` runs with the fault at
/// its file-system call `at` (readdir, open of a hint file, open of a data file, reads): it must
/// report an error - not panic, not return a partial index - and must not have changed the
/// directory; a second, fault-free recovery then succeeds and every key reads as the reference map.
pub(crate) fn fault_shape_r(at: usize) {
    mfs::__preexisting(dslot(0));
    mfs::__preexisting(hslot(0));
    mfs::__preexisting(dslot(1));
    let (va, vb, vc): (u8, u8, u8) = (kani::any(), kani::any(), kani::any());
    let (p0, l0) = lay_data(dslot(0), 0, K[1], Some(vb));
    lay_hint(hslot(0), 0, l0, p0, K[1]);
    lay_data(dslot(1), 0, K[0], Some(va));
    lay_data(dslot(1), 0, K[1], Some(vc));
    lay_data(dslot(1), 0, K[0], None);
    let m: Model = [None, Some(vc)];
    let size0 = data_size();
    arm_fault(at, 0, 3);
    let r = rebuild_storage("d");
    let hit = mfs::__fs().fail_hit;
    kani::cover!(hit, "the fault was injected into the recovery");
    if hit {
        assert!(r.is_err(), "[C20] a file-system call failed during the start-up scan, yet the open reported success");
    } else {
        assert!(r.is_ok(), "[C20] an operation failed although no fault was injected into it");
    }
    std::mem::forget(r);
    assert!(data_size() == size0 && mfs::__fs().n_write == 0, "[C20] a failed open changed the directory");
    mfs::__fs().fail_at = usize::MAX;
    let (keydir, stats, _a) = match rebuild_storage("d") {
        Ok(x) => x,
        Err(_) => {
            assert!(false, "[C20] the directory cannot be opened after a failed open");
            loop {}
        }
    };
    let mut ki = 0;
    while ki < 2 {
        assert!(read_via(&keydir, K[ki]) == Some(m[ki]), "[C20] after a failed open a key reads differently");
        ki += 1;
    }
    std::mem::forget(keydir);
    std::mem::forget(stats);
}

/// Minimal fault shape M1 (quick tier): empty directory, every write rolls over; put a, put b, restart.
/// Calls after the open: 0 write(a) 1 create 2 write(b) 3 create.
pub(crate) fn fault_shape_m1(at: usize, mode: u8) {
    let init: Model = [None, None];
    let mut sc = Sc::<0>::open(init, 0, false, T_NONE);
    arm_fault(at, mode, 3);
    let ua = faulty_put(&mut sc, 0);
    let ub = faulty_put(&mut sc, 1);
    kani::cover!(mfs::__fs().fail_hit, "the fault was injected");
    fault_restart(sc, [ua, ub]);
}

/// Minimal fault shape M2 (quick tier): two values on disk; merge of everything, then put b, restart.
pub(crate) fn fault_shape_m2(at: usize, mode: u8) {
    mfs::__preexisting(dslot(0));
    let (va, vb): (u8, u8) = (kani::any(), kani::any());
    lay_data(dslot(0), 0, K[0], Some(va));
    lay_data(dslot(0), 0, K[1], Some(vb));
    let init: Model = [Some(va), Some(vb)];
    let mut sc = Sc::<0>::open(init, u64::MAX, false, T_ALL);
    arm_fault(at, mode, 3);
    let _fm = faulty_merge(&mut sc);
    let ub = faulty_put(&mut sc, 1);
    kani::cover!(mfs::__fs().fail_hit, "the fault was injected");
    fault_restart(sc, [None, ub]);
}

/// Fault shape M3: a value of `a` on disk in file 0; open (active file 1, empty); merge of everything
/// with the fault at call `at` OF THE MERGE (0 stat of the source, 1/2 creation of the merge data /
/// hint file, 3 open of the source, 4 mmap, 5/6 write of the data / hint entry, 7/8 removal of the
/// source hint / data file, 9 creation of the next active file); then a fault-free put of `a`, read
/// back in the same process, a restart, read back again.  Decides: a failed merge is reported and
/// later acknowledged operations read correctly in the running process and after a restart.
pub(crate) fn fault_shape_m3(at: usize) {
    mfs::__preexisting(dslot(0));
    let va: u8 = kani::any();
    lay_data(dslot(0), 0, K[0], Some(va));
    let init: Model = [Some(va), None];
    let mut sc = Sc::<0>::open(init, u64::MAX, false, T_ALL);
    arm_fault(at, 0, 3);
    let r = sc.s.w.merge();
    assert!(mfs::__fs().fail_hit, "harness: the fault was not injected into the merge");
    // removing a source that is already gone is tolerated by the code (NotFound); any other failing
    // call must be reported
    assert!(r.is_err(), "[C20] a file-system call failed on behalf of a merge, yet the merge reported success");
    std::mem::forget(r);
    kani::cover!(mfs::__fs().fail_kind == mfs::K_CREATE && mfs::__fs().fail_slot == dslot(3), "the creation of the next active file failed");
    kani::cover!(mfs::__fs().fail_kind == mfs::K_UNLINK, "the removal of a merged file failed");
    kani::cover!(mfs::__fs().fail_kind == mfs::K_WRITE, "a write to a merge output failed");
    let v2: u8 = kani::any();
    let r2 = sc.s.w.put(kb(K[0]), kb(v2));
    assert!(r2.is_ok(), "[C20] an operation failed although no fault was injected into it");
    std::mem::forget(r2);
    match sc.s.r.get(kb(K[0])) {
        Ok(g) => assert!(v1(&g) == Some(v2), "[C20] an acknowledged operation after a failed merge does not read back"),
        Err(_) => assert!(false, "[C20] an acknowledged operation after a failed merge cannot be read"),
    }
    sc.m[0] = Some(v2);
    fault_restart(sc, [None, None]);
}

/// Fault shape M4: empty directory; put a (the active file gets statistics, so a merge of
/// everything selects and removes it); merge with the fault at call `at` of the merge; put a again,
/// read back in the same process, restart, read back.
pub(crate) fn fault_shape_m4(at: usize) {
    let init: Model = [None, None];
    let mut sc = Sc::<0>::open(init, u64::MAX, false, T_ALL);
    let va: u8 = kani::any();
    must(sc.s.w.put(kb(K[0]), kb(va)));
    sc.m[0] = Some(va);
    arm_fault(at, 0, 3);
    let r = sc.s.w.merge();
    assert!(mfs::__fs().fail_hit, "harness: the fault was not injected into the merge");
    assert!(r.is_err(), "[C20] a file-system call failed on behalf of a merge, yet the merge reported success");
    std::mem::forget(r);
    kani::cover!(mfs::__fs().fail_kind == mfs::K_CREATE, "a creation failed");
    let v2: u8 = kani::any();
    let r2 = sc.s.w.put(kb(K[0]), kb(v2));
    assert!(r2.is_ok(), "[C20] an operation failed although no fault was injected into it");
    std::mem::forget(r2);
    match sc.s.r.get(kb(K[0])) {
        Ok(g) => assert!(v1(&g) == Some(v2), "[C20] an acknowledged operation after a failed merge does not read back"),
        Err(_) => assert!(false, "[C20] an acknowledged operation after a failed merge cannot be read"),
    }
    sc.m[0] = Some(v2);
    fault_restart(sc, [None, None]);
}

// ---- C12: hint files are only an accelerator
/// Rebuild the index twice from the current directory — as is, and with every hint file unlinked —
/// and compare what each pool key resolves to (and with the reference map).
pub(crate) fn hint_equivalence(m: &Model) {
    let (kd1, st1, _) = must(rebuild_storage("d"));
    let a = [read_via(&kd1, K[0]), read_via(&kd1, K[1])];
    let fs = mfs::__fs();
    let mut any_hint = false;
    let mut id = 0;
    while id < mfs::NID {
        if fs.inodes[hslot(id)].linked && fs.inodes[hslot(id)].len > 0 {
            any_hint = true;
        }
        fs.inodes[hslot(id)].linked = false;
        id += 1;
    }
    kani::cover!(any_hint, "a non-empty hint file existed");
    let (kd2, st2, _) = must(rebuild_storage("d"));
    let b = [read_via(&kd2, K[0]), read_via(&kd2, K[1])];
    assert!(a[0] == b[0] && a[1] == b[1], "[C12] recovery from hint files and from a full scan disagree on a key");
    assert!(a[0] == Some(m[0]) && a[1] == Some(m[1]), "[C12] recovery disagrees with the reference map");
    std::mem::forget((kd1, st1, kd2, st2));
}
