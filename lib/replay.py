"""Replay before reporting: turn the solver's assignment into an ordinary native test and run it.

Step 1: re-run the failing harness with `-Z concrete-playback --concrete-playback=print`; Kani prints a
        unit test that feeds the counterexample's concrete values to the harness through `kani::any()`.
Step 2: the test is appended to the harness module of the shadow crate and executed NATIVELY
        (`cargo kani playback`: rustc, no CBMC) — the repository's real code, compiled as ordinary Rust,
        over the same environment models.  Only if the native run fails (panic / failed assertion) is the
        counterexample reported; otherwise the encoding or a model is wrong and the check is inconclusive.
The replay file records the harness, the failed checks, the concrete values and the generated test, so that
`bin/replay <file>` can run it again against the current tree."""
import hashlib
import json
import os
import re
import shutil
import subprocess

import kanirun

ROOT = os.path.dirname(os.path.dirname(os.path.abspath(__file__)))

MODFILE = {
    "store": "src/storage/bitcask/verif_harness.rs",
    "log": "src/storage/bitcask/verif_harness.rs",
    "net": None,  # depends on the harness: frame or command
}


def _module_file(crate, crate_dir, harness):
    if crate != "net":
        return os.path.join(crate_dir, MODFILE[crate])
    # find which harness module defines it
    for sub in ("frame", "command"):
        d = os.path.join(crate_dir, "src/net", sub, "verif_harness")
        for f in os.listdir(d) if os.path.isdir(d) else []:
            with open(os.path.join(d, f)) as fh:
                if re.search(r"fn %s\s*\(" % re.escape(harness), fh.read()):
                    return os.path.join(d, f)
    return os.path.join(crate_dir, "src/net/frame/verif_harness.rs")


def extract_test(text):
    m = re.search(r"```\s*\n(.*?#\[test\].*?)```", text, re.S)
    if not m:
        m = re.search(r"(/// Test generated for harness.*?\n}\n)", text, re.S)
    return m.group(1) if m else None


def run_playback(crate, crate_dir, harness, test_src, logdir, timeout=1500):
    """Append the generated test next to the harness and run it natively.  Returns (reproduced, detail)."""
    mf = _module_file(crate, crate_dir, harness)
    name = re.search(r"fn (kani_concrete_playback_\w+)", test_src)
    if not name:
        return False, "no test name in generated playback"
    tname = name.group(1)
    with open(mf) as fh:
        orig = fh.read()
    try:
        with open(mf, "a") as fh:
            fh.write("\n" + test_src + "\n")
        log = os.path.join(logdir, "%s.playback.log" % harness)
        cmd = ["cargo", "kani", "playback", "-Z", "concrete-playback", "--", tname]
        env = dict(kanirun.KANI_ENV, CARGO_TARGET_DIR=os.path.join(ROOT, ".cache", "target-playback-" + crate))
        with open(log, "w") as fh:
            try:
                p = subprocess.run(cmd, cwd=crate_dir, stdout=fh, stderr=subprocess.STDOUT, env=env, timeout=timeout)
                rc = p.returncode
            except subprocess.TimeoutExpired:
                return False, "native playback timed out"
        with open(log) as fh:
            out = fh.read()
        if re.search(r"test result: FAILED|panicked at|FAILED", out) and re.search(tname, out):
            msg = re.findall(r"panicked at [^\n]*\n[^\n]*", out)
            return True, (msg[0][:300] if msg else "native test failed")
        if "test result: ok" in out:
            return False, "native playback passed (the counterexample does not reproduce)"
        return False, "native playback did not run (rc=%s): %s" % (rc, out[-300:])
    finally:
        with open(mf, "w") as fh:
            fh.write(orig)


NATIVE_TOOLCHAIN = "nightly"  # the shadow crates need #![feature(prelude_import)]


def build_native(crate, crate_dir, harness, logdir):
    """Native build of the shadow crate (real code + models, rustc, no CBMC) with replay/kani as the
    `kani` crate, plus a tiny binary that calls the harness' exported entry point."""
    nd = crate_dir.rstrip("/") + "-native"
    if os.path.exists(nd):
        shutil.rmtree(nd)
    shutil.copytree(crate_dir, os.path.join(nd, "lib"))
    with open(os.path.join(nd, "lib", "Cargo.toml")) as fh:
        toml = fh.read()
    toml = toml.replace("[dependencies]", "[dependencies]\nkani = { package = \"replay_kani\", path = \"%s\" }" % os.path.join(ROOT, "replay", "kani"), 1)
    toml = toml.replace("\n[workspace]\n", "\n")
    with open(os.path.join(nd, "lib", "Cargo.toml"), "w") as fh:
        fh.write(toml)
    lock = os.path.join(nd, "lib", "Cargo.lock")
    os.makedirs(os.path.join(nd, "src"))
    with open(os.path.join(nd, "Cargo.toml"), "w") as fh:
        fh.write("[package]\nname = \"native_replay\"\nversion = \"0.0.0\"\nedition = \"2021\"\n[dependencies]\nshadow = { package = \"shadow_%s\", path = \"lib\" }\n[workspace]\n" % crate)
    if os.path.exists(lock):
        shutil.move(lock, os.path.join(nd, "Cargo.lock"))
    with open(os.path.join(nd, "src", "main.rs"), "w") as fh:
        fh.write("extern crate shadow;\nextern \"Rust\" { fn __verif_native_%s(); }\nfn main() { unsafe { __verif_native_%s() } }\n" % (harness, harness))
    os.makedirs(os.path.join(nd, ".cargo"))
    with open(os.path.join(nd, ".cargo", "config.toml"), "w") as fh:
        fh.write("[net]\noffline = true\n")
    tdir = os.path.join(ROOT, ".cache", "target-native-" + crate + os.environ.get("VERIF_RUN_SUFFIX", ""))
    env = dict(os.environ, CARGO_NET_OFFLINE="true", RUSTFLAGS="--cfg kani -A warnings", RUSTUP_TOOLCHAIN=NATIVE_TOOLCHAIN,
               CARGO_TARGET_DIR=tdir)
    log = os.path.join(logdir, "%s.native-build.log" % harness)
    os.makedirs(tdir, exist_ok=True)
    # the executable has one name in one target directory: build + copy under an exclusive lock, or two
    # checks confirming at the same time pick up each other's binary (seen: "6000 passed" for a
    # counterexample that does reproduce)
    import fcntl
    with open(os.path.join(tdir, ".verif-native.lock"), "w") as lk:
        fcntl.flock(lk, fcntl.LOCK_EX)
        with open(log, "w") as fh:
            p = subprocess.run(["cargo", "build", "--offline"], cwd=nd, stdout=fh, stderr=subprocess.STDOUT, env=env)
        exe = os.path.join(tdir, "debug", "native_replay")
        if p.returncode != 0 or not os.path.exists(exe):
            return None, log
        keep = os.path.join(nd, "native_replay")
        shutil.copy2(exe, keep)
    return keep, log


def sampled_native(crate, crate_dir, harness, logdir, seeds=range(0, 6000)):
    """Run the harness natively with sampled concrete values for every kani::any().  Returns
    (reproduced, detail, seed, trace)."""
    exe, log = build_native(crate, crate_dir, harness, logdir)
    if exe is None:
        return False, "native build failed (see %s)" % log, None, None
    discarded = passed = 0
    for seed in seeds:
        env = dict(os.environ, VERIF_REPLAY_SEED=str(seed), RUST_BACKTRACE="0")
        try:
            p = subprocess.run([exe], env=env, capture_output=True, text=True, timeout=60)
        except subprocess.TimeoutExpired:
            continue
        if p.returncode == 77:
            discarded += 1
            continue
        if p.returncode == 0:
            passed += 1
            continue
        # reproduced: rerun with the value trace
        env["VERIF_REPLAY_TRACE"] = "1"
        q = subprocess.run([exe], env=env, capture_output=True, text=True, timeout=60)
        msg = re.findall(r"panicked at [^\n]*\n[^\n]*", q.stderr)
        vals = re.findall(r"any::<[^>]*>\(\) = [^\n]*", q.stderr)
        return True, (msg[0][:400] if msg else "native run failed with exit code %d" % p.returncode), seed, vals[:64]
    return False, "no sampled native run failed (%d passed, %d discarded by assumptions)" % (passed, discarded), None, None


def confirm(pid, crate, crate_dir, target_dir, result, unknown_failed, logdir):
    harness = result["harness"]
    crate_name = "shadow_" + crate
    os.makedirs(os.path.join(ROOT, "replays"), exist_ok=True)
    rules = [(re.escape(u["fn"]) + "$", u["loop"], u["bound"]) for u in result.get("unwindset", [])]
    uws, _, _ = kanirun.unwindset_from_rules(target_dir, crate_name, harness, rules)
    cbmc = ["--max-field-sensitivity-array-size", "2048"]
    if uws:
        cbmc += ["--unwindset", uws]
    desc = "; ".join(sorted(set(f["desc"] for f in unknown_failed)))
    h = hashlib.sha256((harness + desc).encode()).hexdigest()[:10]
    path = os.path.join(ROOT, "replays", "%s-%s-%s.json" % (pid, harness, h))
    rec = {
        "property": pid, "crate": crate, "harness": harness,
        "failed_checks": unknown_failed[:10],
        "how_to_replay": "bin/replay %s" % os.path.relpath(path, ROOT),
    }
    test_src = None
    confirmed, why = False, ""
    if crate == "net":
        # small traces: Kani's own concrete playback (the solver's values), run natively
        log = os.path.join(logdir, "%s.cex.log" % harness)
        cmd = kanirun.BASE_ARGS + ["--harness", harness, "--target-dir", target_dir, "-Z", "concrete-playback",
                                   "--concrete-playback=print", "--cbmc-args"] + cbmc
        rc, to, wall = kanirun._run(cmd, crate_dir, 3600, 24, log)
        with open(log) as fh:
            text = fh.read()
        test_src = extract_test(text)
        rec["kani_concrete_playback_test"] = test_src
        if test_src:
            confirmed, why = run_playback(crate, crate_dir, harness, test_src, logdir)
        else:
            why = "no concrete playback produced"
    if not confirmed:
        # store / log crates (the trace of a store run is too large for kani-driver: > 20 GB while
        # parsing it - measured) and fall-back for net: the shapes are concrete, so a native run of
        # the same harness with sampled values for every kani::any() reproduces a genuine violation
        ok, why2, seed, vals = sampled_native(crate, crate_dir, harness, logdir)
        rec["sampled_native_replay"] = {"reproduced": ok, "detail": why2, "seed": seed, "values": vals}
        if ok:
            confirmed, why = True, why2
        else:
            why = (why + "; " if why else "") + why2
    rec["native_replay"] = {"reproduced": confirmed, "detail": why}
    with open(path, "w") as fh:
        json.dump(rec, fh, indent=1)
    return {"confirmed": confirmed, "why": why, "path": path}
