//! Model of lru 0.7.5 `LruCache` (`new`, `get_mut`, `put`): a true LRU over a fixed array.
//! Capacity 0 never caches (lru 0.7.5 `put` with cap 0 returns without inserting).
pub const LCAP: usize = 2;
#[derive(Debug)]
pub struct LruCache<K, V> {
    cap: usize,
    /// `age[i]`: larger = more recently used
    items: [Option<(K, V, u64)>; LCAP],
    clock: u64,
}
impl<K: PartialEq, V> LruCache<K, V> {
    pub fn new(cap: usize) -> Self {
        assert!(cap <= LCAP, "model bound: LRU capacity");
        Self { cap, items: [None, None], clock: 0 }
    }
    fn find(&self, k: &K) -> usize {
        let mut idx = LCAP;
        let mut i = 0;
        while i < LCAP {
            if let Some(e) = &self.items[i] {
                if idx == LCAP && &e.0 == k {
                    idx = i;
                }
            }
            i += 1;
        }
        idx
    }
    pub fn get_mut(&mut self, k: &K) -> Option<&mut V> {
        let idx = self.find(k);
        if idx == LCAP {
            return None;
        }
        self.clock += 1;
        let c = self.clock;
        match &mut self.items[idx] {
            Some(e) => {
                e.2 = c;
                Some(&mut e.1)
            }
            None => None,
        }
    }
    pub fn put(&mut self, k: K, v: V) -> Option<V> {
        if self.cap == 0 {
            return None;
        }
        self.clock += 1;
        let c = self.clock;
        let idx = self.find(&k);
        if idx < LCAP {
            let old = self.items[idx].take();
            self.items[idx] = Some((k, v, c));
            return old.map(|e| e.1);
        }
        // count, find a free position and the least recently used one
        let mut n = 0;
        let mut free = LCAP;
        let mut lru = LCAP;
        let mut lru_age = u64::MAX;
        let mut i = 0;
        while i < LCAP {
            match &self.items[i] {
                Some(e) => {
                    n += 1;
                    if e.2 < lru_age {
                        lru_age = e.2;
                        lru = i;
                    }
                }
                None => {
                    if free == LCAP {
                        free = i;
                    }
                }
            }
            i += 1;
        }
        if n >= self.cap {
            self.items[lru] = Some((k, v, c));
        } else {
            self.items[free] = Some((k, v, c));
        }
        None
    }
    pub fn len(&self) -> usize {
        let mut n = 0;
        let mut i = 0;
        while i < LCAP {
            if self.items[i].is_some() {
                n += 1;
            }
            i += 1;
        }
        n
    }
}
