//! Cost probes (not registered as checks).
use super::*;

#[kani::proof]
#[kani::unwind(26)]
fn p_ids_concrete() {
    mfs::__preexisting(dslot(0));
    let mut it = must(utils::sorted_fileids("d"));
    assert!(it.next() == Some(0));
    assert!(it.next() == None);
}

#[kani::proof]
#[kani::unwind(26)]
fn p_readdir_only() {
    mfs::__preexisting(dslot(0));
    let mut it = must(mfs::read_dir("d"));
    let e = it.next();
    assert!(e.is_some());
    let p = must(e.unwrap()).path();
    assert!(p.is_file());
    assert!(it.next().is_none());
}

#[kani::proof]
#[kani::unwind(26)]
fn p_stem_only() {
    let p = PathBuf::from("d/0.bitcask.data");
    let st = p.file_stem().and_then(std::ffi::OsStr::to_str).and_then(|s| s.split('.').next()).map(str::parse::<u64>);
    assert!(st == Some(Ok(0)));
}

#[kani::proof]
#[kani::unwind(26)]
#[kani::stub(core::slice::memchr::memchr, memchr_model)]
fn p_stem_stubbed() {
    let p = PathBuf::from("d/0.bitcask.data");
    let st = p.file_stem().and_then(std::ffi::OsStr::to_str).and_then(|s| s.split('.').next()).map(str::parse::<u64>);
    assert!(st == Some(Ok(0)));
}

#[kani::proof]
#[kani::unwind(26)]
#[kani::stub(core::slice::memchr::memchr, memchr_model)]
fn p_ids_stubbed() {
    mfs::__preexisting(dslot(0));
    mfs::__preexisting(dslot(2));
    mfs::__preexisting(hslot(2));
    let mut it = must(utils::sorted_fileids("d"));
    assert!(it.next() == Some(0));
    assert!(it.next() == Some(2));
    assert!(it.next() == None);
}

macro_rules! sattrs { ($(#[$m:meta])* fn $n:ident() $b:block) => {
    #[kani::proof]
    #[kani::unwind(26)]
    #[kani::stub(utils::datafile_name, datafile_name_model)]
    #[kani::stub(utils::hintfile_name, hintfile_name_model)]
    #[kani::stub(core::slice::memchr::memchr, memchr_model)]
    $(#[$m])* fn $n() $b
} }

sattrs! { fn p_rebuild1() {
    mfs::__preexisting(dslot(0));
    let k: u8 = kani::any();
    let v: u8 = kani::any();
    lay_data(dslot(0), 0, k, Some(v));
    let (kd, st, id) = must(rebuild_storage("d"));
    assert!(id == 1);
    assert!(kd.len() == 1);
} }

sattrs! { fn p_rebuild_empty() {
    let (kd, st, id) = must(rebuild_storage("d"));
    assert!(id == 0);
} }

sattrs! { fn p_open1() {
    mfs::__preexisting(dslot(0));
    let k: u8 = kani::any();
    let v: u8 = kani::any();
    lay_data(dslot(0), 0, k, Some(v));
    let s = (open_store(mk_conf(100, 2, false)));
    assert!(s.w.active_fileid == 1);
    std::mem::forget(s);
} }

sattrs! { fn p_open1_get() {
    mfs::__preexisting(dslot(0));
    let k: u8 = kani::any();
    let v: u8 = kani::any();
    lay_data(dslot(0), 0, k, Some(v));
    let s = (open_store(mk_conf(100, 2, false)));
    let g = must(s.r.get(kb(k)));
    assert!(v1(&g) == Some(v));
    std::mem::forget(s);
} }

sattrs! { fn p_open0_put() {
    let mut s = (open_store(mk_conf(100, 2, false)));
    let k: u8 = kani::any();
    let v: u8 = kani::any();
    must(s.w.put(kb(k), kb(v)));
    assert!(s.ctx.keydir.len() == 1);
    std::mem::forget(s);
} }

sattrs! { fn p_open0_put_get() {
    let mut s = (open_store(mk_conf(100, 2, false)));
    let k: u8 = kani::any();
    let v: u8 = kani::any();
    must(s.w.put(kb(k), kb(v)));
    let g = must(s.r.get(kb(k)));
    assert!(v1(&g) == Some(v));
    std::mem::forget(s);
} }

#[kani::proof]
#[kani::unwind(70)]
fn p_fs_only() {
    use std::io::{Read, Write};
    let mut f = must(log::create("d/0.bitcask.data"));
    let b: [u8; 4] = kani::any();
    let n = must(f.write(&b));
    assert!(n == 4);
    let mut g = must(log::open("d/0.bitcask.data"));
    let mut r = [0u8; 4];
    let m = must(g.read(&mut r));
    assert!(m == 4);
    assert!(r[0] == b[0] && r[3] == b[3]);
    assert!(mfs::__fs().steps == 4);
}

#[kani::proof]
#[kani::unwind(70)]
fn p_fs_steps() {
    let fs = mfs::__fs();
    fs.steps += 1;
    if fs.steps != 1 {
        mfs::__snapshot();
    }
    assert!(fs.steps == 1);
}

sattrs! { fn p_open0() {
    let s = (open_store(mk_conf(100, 2, false)));
    assert!(s.w.active_fileid == 0);
    assert!(mfs::__fs().steps == 2);
    std::mem::forget(s);
} }

sattrs! { fn p_append() {
    let mut w = must(LogWriter::new(must(log::create("d/0.bitcask.data"))));
    let k: u8 = kani::any();
    let v: u8 = kani::any();
    let e = DataFileEntry { tstamp: 0, key: kb(k), value: Some(kb(v)) };
    let idx = must(w.append(&e));
    assert!(idx.pos == 0);
    assert!(idx.len == 6);
} }

sattrs! { fn p_bufwriter() {
    use std::io::Write;
    let mut w = must(bufio::BufWriterWithPos::new(must(log::create("d/0.bitcask.data"))));
    let b: [u8; 4] = kani::any();
    must(w.write_all(&b));
    must(w.write_all(&b));
    must(w.flush());
    assert!(w.pos() == 8);
} }

sattrs! { fn p_o_a() {
    let conf = mk_conf(100, 2, false);
    let (keydir, stats, active_fileid) = must(rebuild_storage(&conf.path));
    let ctx = Arc::new(Context { conf, keydir, stats, closed: AtomicCell::new(false) });
    assert!(active_fileid == 0);
} }
sattrs! { fn p_o_b() {
    let conf = mk_conf(100, 2, false);
    let (keydir, stats, active_fileid) = must(rebuild_storage(&conf.path));
    let ctx = Arc::new(Context { conf, keydir, stats, closed: AtomicCell::new(false) });
    let r = Reader { ctx: ctx.clone(), readers: RefCell::new(LogDir::new(ctx.conf.readers_cache_size)) };
    assert!(active_fileid == 0);
} }
sattrs! { fn p_o_c() {
    let conf = mk_conf(100, 2, false);
    let f = must(log::create(utils::datafile_name(&conf.path, 0)));
    assert!(f.slot == 0);
} }
sattrs! { fn p_o_d() {
    let conf = mk_conf(100, 2, false);
    let w = must(LogWriter::new(must(log::create(utils::datafile_name(&conf.path, 0)))));
    assert!(mfs::__fs().steps == 1);
} }
sattrs! { fn p_o_e() {
    let w = must(LogWriter::new(must(log::create("d/0.bitcask.data"))));
    assert!(mfs::__fs().steps == 1);
} }

sattrs! { fn p_inline0() {
    let conf = mk_conf(100, 2, false);
    let (keydir, stats, active_fileid) = must(rebuild_storage(&conf.path));
    let ctx = Arc::new(Context { conf, keydir, stats, closed: AtomicCell::new(false) });
    let r = Reader { ctx: ctx.clone(), readers: RefCell::new(LogDir::new(ctx.conf.readers_cache_size)) };
    let w = Writer {
        ctx: ctx.clone(),
        readers: RefCell::new(LogDir::new(ctx.conf.readers_cache_size)),
        writer: must(LogWriter::new(must(log::create(utils::datafile_name(&ctx.conf.path, active_fileid))))),
        active_fileid,
        written_bytes: 0,
    };
    assert!(w.active_fileid == 0);
} }
sattrs! { fn p_inline0_forget() {
    let conf = mk_conf(100, 2, false);
    let (keydir, stats, active_fileid) = must(rebuild_storage(&conf.path));
    let ctx = Arc::new(Context { conf, keydir, stats, closed: AtomicCell::new(false) });
    let r = Reader { ctx: ctx.clone(), readers: RefCell::new(LogDir::new(ctx.conf.readers_cache_size)) };
    let w = Writer {
        ctx: ctx.clone(),
        readers: RefCell::new(LogDir::new(ctx.conf.readers_cache_size)),
        writer: must(LogWriter::new(must(log::create(utils::datafile_name(&ctx.conf.path, active_fileid))))),
        active_fileid,
        written_bytes: 0,
    };
    assert!(w.active_fileid == 0);
    std::mem::forget(w); std::mem::forget(r); std::mem::forget(ctx);
} }
sattrs! { fn p_open0_forget() {
    let s = (open_store(mk_conf(100, 2, false)));
    assert!(s.w.active_fileid == 0);
    std::mem::forget(s);
} }

sattrs! { fn p_inline0_put() {
    let conf = mk_conf(100, 2, false);
    let (keydir, stats, active_fileid) = must(rebuild_storage(&conf.path));
    let ctx = Arc::new(Context { conf, keydir, stats, closed: AtomicCell::new(false) });
    let r = Reader { ctx: ctx.clone(), readers: RefCell::new(LogDir::new(ctx.conf.readers_cache_size)) };
    let mut w = Writer {
        ctx: ctx.clone(),
        readers: RefCell::new(LogDir::new(ctx.conf.readers_cache_size)),
        writer: must(LogWriter::new(must(log::create(utils::datafile_name(&ctx.conf.path, active_fileid))))),
        active_fileid,
        written_bytes: 0,
    };
    let k: u8 = kani::any();
    let v: u8 = kani::any();
    must(w.put(kb(k), kb(v)));
    assert!(ctx.keydir.len() == 1);
    std::mem::forget(w); std::mem::forget(r); std::mem::forget(ctx);
} }
// no Arc sharing with a reader, no rebuild
sattrs! { fn p_min_put() {
    let conf = mk_conf(100, 2, false);
    let ctx = Arc::new(Context { conf, keydir: DashMap::default(), stats: DashMap::default(), closed: AtomicCell::new(false) });
    let mut w = Writer {
        ctx: ctx.clone(),
        readers: RefCell::new(LogDir::new(2)),
        writer: must(LogWriter::new(must(log::create("d/0.bitcask.data")))),
        active_fileid: 0,
        written_bytes: 0,
    };
    let k: u8 = kani::any();
    let v: u8 = kani::any();
    must(w.put(kb(k), kb(v)));
    assert!(ctx.keydir.len() == 1);
    std::mem::forget(w); std::mem::forget(ctx);
} }
// just the write() part without stats etc
sattrs! { fn p_min_append_in_writer() {
    let conf = mk_conf(100, 2, false);
    let ctx = Arc::new(Context { conf, keydir: DashMap::default(), stats: DashMap::default(), closed: AtomicCell::new(false) });
    let mut w = Writer {
        ctx: ctx.clone(),
        readers: RefCell::new(LogDir::new(2)),
        writer: must(LogWriter::new(must(log::create("d/0.bitcask.data")))),
        active_fileid: 0,
        written_bytes: 0,
    };
    let k: u8 = kani::any();
    let v: u8 = kani::any();
    let e = DataFileEntry { tstamp: 0, key: kb(k), value: Some(kb(v)) };
    let idx = must(w.writer.append(&e));
    assert!(idx.len == 6);
    std::mem::forget(w); std::mem::forget(ctx);
} }

#[inline(never)]
pub(crate) fn marker_loop(tag: usize) {
    // visible in the symex log as "Unwinding loop ...marker_loop" iff reached under a non-constant guard
    let mut i = 0;
    let mut a = 0usize;
    while i < 3 + tag {
        a += i;
        i += 1;
    }
    assert!(a < 1000);
}

sattrs! { fn p_const_probe() {
    use std::io::Write;
    let mut w = must(LogWriter::new(must(log::create("d/0.bitcask.data"))));
    let k: u8 = kani::any();
    let v: u8 = kani::any();
    let e = DataFileEntry { tstamp: 0, key: kb(k), value: Some(kb(v)) };
    if mfs::__fs().steps != 0 { marker_loop(1); }
    let idx = must(w.append(&e));
    if mfs::__fs().steps != 1 { marker_loop(2); }
    if idx.pos != 0 { marker_loop(3); }
    if idx.len != 6 { marker_loop(4); }
    if mfs::__fs().inodes[0].len != 6 { marker_loop(5); }
    std::mem::forget(w);
} }

sattrs! { fn p_const_probe2() {
    let conf = mk_conf(100, 2, false);
    if conf.max_file_size != 100 { marker_loop(1); }
    let ctx = Arc::new(Context { conf, keydir: DashMap::default(), stats: DashMap::default(), closed: AtomicCell::new(false) });
    if ctx.conf.max_file_size != 100 { marker_loop(2); }
    let mut w = Writer {
        ctx: ctx.clone(),
        readers: RefCell::new(LogDir::new(2)),
        writer: must(LogWriter::new(must(log::create("d/0.bitcask.data")))),
        active_fileid: 0,
        written_bytes: 0,
    };
    if w.ctx.conf.max_file_size != 100 { marker_loop(3); }
    if w.written_bytes != 0 { marker_loop(4); }
    let k: u8 = kani::any();
    let v: u8 = kani::any();
    let e = must(w.write(0, kb(k), Some(kb(v))));
    if w.written_bytes != 6 { marker_loop(5); }
    if e.len != 6 { marker_loop(6); }
    if w.active_fileid != 0 { marker_loop(7); }
    std::mem::forget(w); std::mem::forget(ctx);
} }

sattrs! { fn p_iter_probe() {
    mfs::__preexisting(dslot(0));
    let k: u8 = kani::any();
    let v: u8 = kani::any();
    lay_data(dslot(0), 0, k, Some(v));
    if mfs::__fs().inodes[0].len != 6 { marker_loop(1); }
    let f = must(log::open("d/0.bitcask.data"));
    let mut it = must(LogIterator::new(f));
    if mfs::__fs().steps != 1 { marker_loop(2); }
    let e = must(it.next::<DataFileEntry>());
    if mfs::__fs().steps != 2 { marker_loop(3); }
    match e {
        Some((idx, ent)) => {
            if idx.len != 6 { marker_loop(4); }
            assert!(ent.key == kb(k));
        }
        None => { marker_loop(5); }
    }
    std::mem::forget(it);
} }

sattrs! { fn p_bufreader_probe() {
    use std::io::Read;
    mfs::__preexisting(dslot(0));
    let k: u8 = kani::any();
    let v: u8 = kani::any();
    lay_data(dslot(0), 0, k, Some(v));
    let mut f = must(log::open("d/0.bitcask.data"));
    let mut b0 = [0u8; 16];
    let n0 = must(f.read(&mut b0[..]));
    if n0 != 6 { marker_loop(1); }
    let f = must(log::open("d/0.bitcask.data"));
    let mut r = std::io::BufReader::new(f);
    let mut b = [0u8; 1];
    let n = must(r.read(&mut b));
    if n != 1 { marker_loop(2); }
    if mfs::__fs().steps != 4 { marker_loop(3); }
    let n = must(r.read(&mut b));
    if n != 1 { marker_loop(4); }
    must(r.read_exact(&mut b));
    if mfs::__fs().steps != 4 { marker_loop(5); }
    std::mem::forget(r);
} }

macro_rules! deser_probe { ($n:ident, $t:ty, $steps:expr) => {
sattrs! { fn $n() {
    mfs::__preexisting(dslot(0));
    let k: u8 = kani::any();
    let v: u8 = kani::any();
    lay_data(dslot(0), 0, k, Some(v));
    let f = must(log::open("d/0.bitcask.data"));
    let mut r = must(bufio::BufReaderWithPos::new(f));
    let e: $t = must(bincode::deserialize_from(&mut r));
    if mfs::__fs().steps != $steps { marker_loop(1); }
    std::mem::forget(r);
} } } }
deser_probe!(p_de_i64, i64, 2);
deser_probe!(p_de_i64_u64, (i64, u64), 2);
#[derive(serde::Deserialize)] struct S1 { a: i64 }
#[derive(serde::Deserialize)] struct S2 { a: i64, b: Bytes }
deser_probe!(p_de_s1, S1, 2);
deser_probe!(p_de_s2, S2, 2);
deser_probe!(p_de_entry, DataFileEntry, 2);

sattrs! { fn p_iter_v2() {
    mfs::__preexisting(dslot(0));
    let k: u8 = kani::any();
    let v: u8 = kani::any();
    lay_data(dslot(0), 0, k, Some(v));
    let f = must(log::open("d/0.bitcask.data"));
    let mut it = must(LogIterator::new(f));
    let r = it.next::<DataFileEntry>();
    if mfs::__fs().steps != 2 { marker_loop(1); }
    std::mem::forget(r);
    std::mem::forget(it);
} }
sattrs! { fn p_iter_v3() {
    mfs::__preexisting(dslot(0));
    let k: u8 = kani::any();
    let v: u8 = kani::any();
    lay_data(dslot(0), 0, k, Some(v));
    let f = must(log::open("d/0.bitcask.data"));
    let mut it = must(LogIterator::new(f));
    let r = it.next::<DataFileEntry>();
    match r { Ok(Some((idx, e))) => { if idx.len != 6 { marker_loop(2); } assert!(e.key == kb(k)); std::mem::forget(e); } _ => { assert!(false); } }
    std::mem::forget(it);
} }

pub(crate) struct Wrp(bufio::BufReaderWithPos<std::fs::File>);
#[inline(never)]
fn wrap(r: bufio::BufReaderWithPos<std::fs::File>) -> std::io::Result<Wrp> { Ok(Wrp(r)) }
sattrs! { fn p_wrap_probe() {
    mfs::__preexisting(dslot(0));
    let k: u8 = kani::any();
    let v: u8 = kani::any();
    lay_data(dslot(0), 0, k, Some(v));
    let f = must(log::open("d/0.bitcask.data"));
    let mut w = must(wrap(must(bufio::BufReaderWithPos::new(f))));
    let e: DataFileEntry = must(bincode::deserialize_from(&mut w.0));
    if mfs::__fs().steps != 2 { marker_loop(1); }
    std::mem::forget(w);
} }
#[inline(never)]
fn wrap2(f: std::fs::File) -> std::io::Result<Wrp> { let r = bufio::BufReaderWithPos::new(f)?; Ok(Wrp(r)) }
sattrs! { fn p_wrap2_probe() {
    mfs::__preexisting(dslot(0));
    let k: u8 = kani::any();
    let v: u8 = kani::any();
    lay_data(dslot(0), 0, k, Some(v));
    let f = must(log::open("d/0.bitcask.data"));
    let mut w = must(wrap2(f));
    let e: DataFileEntry = must(bincode::deserialize_from(&mut w.0));
    if mfs::__fs().steps != 2 { marker_loop(1); }
    std::mem::forget(w);
} }

sattrs! { fn p_iter_v4() {
    mfs::__preexisting(dslot(0));
    let k: u8 = kani::any();
    let v: u8 = kani::any();
    lay_data(dslot(0), 0, k, Some(v));
    let f = must(log::open("d/0.bitcask.data"));
    let mut it = must(LogIterator::new(f));
    let r = it.next::<DataFileEntry>();
    match r {
        Ok(Some((idx, e))) => { if idx.len != 6 { marker_loop(2); } std::mem::forget(e); }
        Ok(None) => { marker_loop(3); }
        Err(e) => { marker_loop(4); std::mem::forget(e); }
    }
    let r = it.next::<DataFileEntry>();
    match r {
        Ok(Some((idx, e))) => { marker_loop(5); std::mem::forget(e); }
        Ok(None) => { if mfs::__fs().steps != 3 { marker_loop(6); } }
        Err(e) => { marker_loop(7); std::mem::forget(e); }
    }
    std::mem::forget(it);
} }

#[kani::proof]
#[kani::unwind(12)]
fn p_err_kind() {
    let e = std::io::Error::from(std::io::ErrorKind::NotFound);
    if e.kind() != std::io::ErrorKind::NotFound { marker_loop(1); }
    let r: std::io::Result<()> = Err(e);
    match r { Ok(()) => marker_loop(2), Err(e) => { if e.kind() != std::io::ErrorKind::NotFound { marker_loop(3); } std::mem::forget(e); } }
}

sattrs! { fn p_put_bytes_probe() {
    let mut s = (open_store(mk_conf(100, 2, false)));
    let k: u8 = kani::any();
    let v: u8 = kani::any();
    must(s.w.put(kb(k), kb(v)));
    let fs = mfs::__fs();
    if fs.inodes[0].len != 6 { marker_loop(1); }
    if fs.inodes[0].data[0] != 0 { marker_loop(2); }
    if fs.inodes[0].data[1] != 1 { marker_loop(3); }
    if fs.inodes[0].data[3] != 1 { marker_loop(4); }
    if fs.steps != 3 { marker_loop(5); }
    std::mem::forget(s);
} }

sattrs! { fn p_at_probe() {
    mfs::__preexisting(dslot(0));
    let k: u8 = kani::any();
    let v: u8 = kani::any();
    lay_data(dslot(0), 0, k, Some(v));
    let f = must(log::open("d/0.bitcask.data"));
    let mut r = must(log::LogReader::new(f));
    if mfs::__fs().steps != 2 { marker_loop(1); }
    let e: DataFileEntry = must(unsafe { r.at(6, 0) });
    if mfs::__fs().steps != 2 { marker_loop(2); }
    assert!(e.key == kb(k));
    std::mem::forget(r);
} }
sattrs! { fn p_slice_de_probe() {
    let k: u8 = kani::any();
    let v: u8 = kani::any();
    let d = [0u8, 1, k, 1, 1, v, 9, 9];
    let e: DataFileEntry = must(bincode::deserialize(&d[0..6]));
    assert!(e.key == kb(k));
} }

sattrs! { fn p_keydir_probe() {
    let mut s = (open_store(mk_conf(100, 2, false)));
    let k: u8 = kani::any();
    let v: u8 = kani::any();
    must(s.w.put(kb(k), kb(v)));
    {
        let e = s.ctx.keydir.get(&kb(k));
        match e {
            Some(r) => { if r.len != 6 { marker_loop(1); } if r.fileid != 0 { marker_loop(2); } if r.pos != 0 { marker_loop(3); } }
            None => { marker_loop(4); }
        }
    }
    if s.ctx.conf.readers_cache_size != 2 { marker_loop(5); }
    std::mem::forget(s);
} }
