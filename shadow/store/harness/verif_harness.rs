//! Store-level (S) harnesses.  This module is appended as a *child* of the verbatim copy of
//! `src/storage/bitcask.rs`, so it reaches private items exactly as the real code does.
#![allow(dead_code, unused_imports, static_mut_refs)]
use super::*;
use std::fs as mfs;
use std::path::{Path, PathBuf};

macro_rules! s_harness { ($(#[$m:meta])* fn $n:ident() $b:block) => {
    #[kani::proof]
    #[kani::unwind(20)]
    #[kani::stub(utils::datafile_name, datafile_name_model)]
    #[kani::stub(utils::hintfile_name, hintfile_name_model)]
    #[kani::stub(core::slice::memchr::memchr, memchr_model)]
    $(#[$m])* fn $n() $b
} }
pub(crate) use s_harness;

mod c01;
mod sc;
mod c03;
mod c04;

#[cfg(verif_probe)]
mod probe;

// ------------------------------------------------------------------------------------------------
// Stubs (by path, `-Z stubbing`): the two name constructors.  Their real bodies are decided on
// their own in shadow-log (`c02_ids`).
pub(crate) fn name_model(dir: &Path, id: u64, ext: &[u8; 4]) -> PathBuf {
    assert!(id < mfs::NID as u64, "model bound: file id below NID");
    let mut p = dir.to_path_buf();
    p.__push_byte(b'/');
    if id >= 10 {
        p.__push_byte(b'0' + (id / 10) as u8);
    }
    p.__push_byte(b'0' + (id % 10) as u8);
    let mid = b".bitcask.";
    let mut i = 0;
    while i < 9 {
        p.__push_byte(mid[i]);
        i += 1;
    }
    let mut i = 0;
    while i < 4 {
        p.__push_byte(ext[i]);
        i += 1;
    }
    p
}
pub(crate) fn datafile_name_model<P: AsRef<Path>>(path: P, fileid: u64) -> PathBuf {
    name_model(path.as_ref(), fileid, b"data")
}
pub(crate) fn hintfile_name_model<P: AsRef<Path>>(path: P, fileid: u64) -> PathBuf {
    name_model(path.as_ref(), fileid, b"hint")
}

/// Stub for `core::slice::memchr::memchr` (used by `str::split`): same result, no
/// pointer-alignment case split.
pub(crate) fn memchr_model(x: u8, text: &[u8]) -> Option<usize> {
    let mut i = 0;
    while i < text.len() {
        if text[i] == x {
            return Some(i);
        }
        i += 1;
    }
    None
}

// ------------------------------------------------------------------------------------------------
pub(crate) fn mk_conf(max_file_size: u64, cache: usize, sync_always: bool) -> Config {
    Config {
        path: PathBuf::from("d"),
        concurrency: 1,
        readers_cache_size: cache,
        max_file_size,
        sync: if sync_always { SyncStrategy::Always } else { SyncStrategy::None },
        merge: config::MergeStrategy::default(),
    }
}

pub(crate) struct Store {
    pub ctx: Arc<Context>,
    pub w: Writer,
    pub r: Reader,
}

/// What `Bitcask::open` lines 152-187 do, with struct literals instead of the thread / tokio /
/// broadcast set-up (checked against the real `Bitcask::open` by `open_equiv`).
pub(crate) fn open_store(conf: Config) -> Store {
    let (keydir, stats, active_fileid) = must(rebuild_storage(&conf.path));
    let ctx = Arc::new(Context { conf, keydir, stats, closed: AtomicCell::new(false) });
    let r = Reader { ctx: ctx.clone(), readers: RefCell::new(LogDir::new(ctx.conf.readers_cache_size)) };
    let w = Writer {
        ctx: ctx.clone(),
        readers: RefCell::new(LogDir::new(ctx.conf.readers_cache_size)),
        writer: must(LogWriter::new(must(log::create(utils::datafile_name(&ctx.conf.path, active_fileid))))),
        active_fileid,
        written_bytes: 0,
    };
    Store { ctx, w, r }
}

pub(crate) fn must<T, E>(r: Result<T, E>) -> T {
    match r {
        Ok(v) => v,
        Err(_) => {
            assert!(false, "unexpected Err on a fault-free path");
            loop {}
        }
    }
}

pub(crate) fn kb(b: u8) -> Bytes {
    let mut d = [0u8; bytes::BCAP];
    d[0] = b;
    Bytes::__from_array(d, 1)
}

/// First byte of an optional 1-byte value.
pub(crate) fn v1(o: &Option<Bytes>) -> Option<u8> {
    match o {
        Some(b) => {
            assert!(b.len() == 1);
            Some(b.__byte(0))
        }
        None => None,
    }
}

// ------------------------------------------------------------------------------------------------
// Directory prelude: records are laid out directly in the model file system with the codec's
// encoding (no real code runs here; that these are the bytes `LogWriter::append` produces is
// decided by `codec_layout` below and, for real bincode, at L level).
pub(crate) const DATA_PUT_LEN: usize = 6;
pub(crate) const DATA_DEL_LEN: usize = 4;
pub(crate) const HINT_LEN: usize = 5;

pub(crate) fn dslot(id: usize) -> usize {
    id * 2
}
pub(crate) fn hslot(id: usize) -> usize {
    id * 2 + 1
}

/// Append a data record (1-byte key, optional 1-byte value) to inode `slot`; returns (pos, len).
pub(crate) fn lay_data(slot: usize, t: i8, key: u8, val: Option<u8>) -> (usize, usize) {
    let ino = &mut mfs::__fs().inodes[slot];
    let data = &mut mfs::__data()[slot];
    let p = ino.len;
    data[p] = t as u8;
    data[p + 1] = 1;
    data[p + 2] = key;
    match val {
        None => {
            data[p + 3] = 0;
            ino.len = p + DATA_DEL_LEN;
        }
        Some(v) => {
            data[p + 3] = 1;
            data[p + 4] = 1;
            data[p + 5] = v;
            ino.len = p + DATA_PUT_LEN;
        }
    }
    ino.synced = ino.len;
    (p, ino.len - p)
}

/// Append a hint record to inode `slot`.
pub(crate) fn lay_hint(slot: usize, t: i8, len: usize, pos: usize, key: u8) {
    let ino = &mut mfs::__fs().inodes[slot];
    let data = &mut mfs::__data()[slot];
    let p = ino.len;
    data[p] = t as u8;
    data[p + 1] = len as u8;
    data[p + 2] = pos as u8;
    data[p + 3] = 1;
    data[p + 4] = key;
    ino.len = p + HINT_LEN;
    ino.synced = ino.len;
}

// ------------------------------------------------------------------------------------------------
// Arbitrary well-formed directories (history form (b) of DESIGN.md section 4).

/// Pool of two distinct symbolic 1-byte keys.
pub(crate) fn key_pool() -> [u8; 2] {
    let k: [u8; 2] = kani::any();
    kani::assume(k[0] != k[1]);
    k
}

/// Reference map over the pool: `None` = absent, `Some(v)` = 1-byte value.
pub(crate) type Model = [Option<u8>; 2];

/// Lay out data file `id` with a symbolic number (0..=max) of symbolic records over the pool and
/// update the reference map in file order.  Returns the number of records.
pub(crate) fn gen_datafile(id: usize, max: usize, k: &[u8; 2], model: &mut Model) -> usize {
    mfs::__preexisting(dslot(id));
    let n: usize = kani::any();
    kani::assume(n <= max);
    let mut i = 0;
    while i < max {
        if i < n {
            let ki: usize = kani::any();
            kani::assume(ki < 2);
            let v: Option<u8> = kani::any();
            lay_data(dslot(id), 0, k[ki], v);
            model[ki] = v;
        }
        i += 1;
    }
    n
}

/// Lay out a merge output `id`: a data file holding live values of distinct keys (a symbolic
/// subset of the pool, in symbolic order) and the hint file a merge writes alongside it.
pub(crate) fn gen_mergefile(id: usize, k: &[u8; 2], model: &mut Model) -> usize {
    mfs::__preexisting(dslot(id));
    mfs::__preexisting(hslot(id));
    let n: usize = kani::any();
    kani::assume(n <= 2);
    let first: usize = kani::any();
    kani::assume(first < 2);
    let mut i = 0;
    while i < 2 {
        if i < n {
            let ki = if i == 0 { first } else { 1 - first };
            let v: u8 = kani::any();
            let (pos, len) = lay_data(dslot(id), 0, k[ki], Some(v));
            lay_hint(hslot(id), 0, len, pos, k[ki]);
            model[ki] = Some(v);
        }
        i += 1;
    }
    n
}

/// Read both pool keys through the real `Reader::get` and compare with the reference map.
pub(crate) fn check_reads(s: &Store, k: &[u8; 2], model: &Model) {
    let g0 = must(s.r.get(kb(k[0])));
    assert!(v1(&g0) == model[0], "get(k0) differs from the reference map");
    let g1 = must(s.r.get(kb(k[1])));
    assert!(v1(&g1) == model[1], "get(k1) differs from the reference map");
}
