//! Log-level (L) harnesses: real bincode, real std::io, real std::path.
#![allow(dead_code, unused_imports, static_mut_refs)]
use super::*;
use std::fs as mfs;

pub(crate) fn format_stub(_a: std::fmt::Arguments<'_>) -> String {
    String::new()
}
pub(crate) fn must<T, E>(r: Result<T, E>) -> T {
    match r {
        Ok(v) => v,
        Err(_) => {
            assert!(false, "unexpected Err");
            loop {}
        }
    }
}
pub(crate) fn kb(b: &[u8]) -> Bytes {
    Bytes::copy_from_slice(b)
}

/// Codec contract assumed by the store-level harnesses, decided here for the REAL bincode on the
/// real `DataFileEntry` / `HintFileEntry` types with symbolic field values (key 1 byte, optional
/// 1-byte value): (1) decode(encode(e)) == e; (2) the encoded length is the stated function of the
/// field lengths; (3) every strict prefix decodes to an error (never to a shorter record).
#[kani::proof]
#[kani::unwind(40)]
#[kani::stub(alloc::fmt::format, format_stub)]
fn l_codec_data_entry() {
    let t: i64 = kani::any();
    let k: u8 = kani::any();
    let v: Option<u8> = kani::any();
    let e = DataFileEntry { tstamp: t, key: kb(&[k]), value: v.map(|x| kb(&[x])) };
    let mut out: Vec<u8> = Vec::with_capacity(40);
    must(bincode::serialize_into(&mut out, &e));
    let want = 8 + 8 + 1 + 1 + if v.is_some() { 8 + 1 } else { 0 };
    assert!(out.len() == want, "encoded length is not the function of the field lengths");
    let d: DataFileEntry = must(bincode::deserialize(&out[..]));
    assert!(d.tstamp == t && d.key == kb(&[k]), "round trip changed tstamp / key");
    match (&d.value, v) {
        (Some(b), Some(x)) => assert!(b.len() == 1 && b[0] == x, "round trip changed the value"),
        (None, None) => {}
        _ => assert!(false, "round trip changed tombstone-ness"),
    }
    let cut: usize = kani::any();
    kani::assume(cut < want);
    let r: bincode::Result<DataFileEntry> = bincode::deserialize(&out[..cut]);
    assert!(r.is_err(), "a strict prefix of an encoding decodes to a record");
    std::mem::forget(r);
    std::mem::forget(d);
    std::mem::forget(e);
}

#[kani::proof]
#[kani::unwind(40)]
#[kani::stub(alloc::fmt::format, format_stub)]
fn l_codec_hint_entry() {
    let (t, len, pos): (i64, u64, u64) = (kani::any(), kani::any(), kani::any());
    let k: u8 = kani::any();
    let e = HintFileEntry { tstamp: t, len, pos, key: kb(&[k]) };
    let mut out: Vec<u8> = Vec::with_capacity(40);
    must(bincode::serialize_into(&mut out, &e));
    assert!(out.len() == 8 + 8 + 8 + 8 + 1, "encoded length is not the function of the field lengths");
    let d: HintFileEntry = must(bincode::deserialize(&out[..]));
    assert!(d.tstamp == t && d.len == len && d.pos == pos && d.key == kb(&[k]), "round trip changed a field");
    std::mem::forget(d);
    std::mem::forget(e);
}

/// The real `utils::datafile_name` / `hintfile_name` produce exactly the bytes the store-level name
/// stub produces (`<dir>/<id>.bitcask.{data,hint}`, decimal id without padding) — one instance per
/// id, formatting stays concrete.
fn name_contract(id: u64) {
    let want_d: &[u8] = match id {
        0 => b"d/0.bitcask.data",
        7 => b"d/7.bitcask.data",
        9 => b"d/9.bitcask.data",
        10 => b"d/10.bitcask.data",
        _ => b"d/99.bitcask.data",
    };
    let p = utils::datafile_name("d", id);
    let got = p.as_os_str().as_encoded_bytes();
    assert!(got.len() == want_d.len(), "datafile_name length differs");
    let mut i = 0;
    while i < want_d.len() {
        assert!(got[i] == want_d[i], "datafile_name differs from <dir>/<id>.bitcask.data");
        i += 1;
    }
    let h = utils::hintfile_name("d", id);
    let goth = h.as_os_str().as_encoded_bytes();
    assert!(goth.len() == want_d.len(), "hintfile_name length differs");
    let mut i = 0;
    while i < want_d.len() - 4 {
        assert!(goth[i] == want_d[i], "hintfile_name differs");
        i += 1;
    }
    assert!(goth[want_d.len() - 4..] == *b"hint", "hintfile_name extension differs");
}
#[kani::proof]
#[kani::unwind(24)]
fn l_names_0() { name_contract(0) }
#[kani::proof]
#[kani::unwind(24)]
fn l_names_9() { name_contract(9) }
#[kani::proof]
#[kani::unwind(24)]
fn l_names_10() { name_contract(10) }
#[kani::proof]
#[kani::unwind(24)]
fn l_names_99() { name_contract(99) }
