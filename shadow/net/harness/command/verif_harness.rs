//! Command-decoder harnesses: child module of the verbatim copy of `src/net/command.rs`.
#![allow(dead_code, unused_imports)]
use super::*;
