//! C01 — the store behaves as a key-value map for every operation sequence.
use super::*;

macro_rules! s_harness { ($(#[$m:meta])* fn $n:ident() $b:block) => {
    #[kani::proof]
    #[kani::unwind(20)]
    #[kani::stub(utils::datafile_name, datafile_name_model)]
    #[kani::stub(utils::hintfile_name, hintfile_name_model)]
    #[kani::stub(core::slice::memchr::memchr, memchr_model)]
    $(#[$m])* fn $n() $b
} }
pub(crate) use s_harness;

/// One symbolic write-side operation (put / delete, symbolic key and value) on the store,
/// mirrored on the reference map; delete's return value is checked.
pub(crate) fn sym_write_op(s: &mut Store, k: &[u8; 2], model: &mut Model) {
    let ki: usize = kani::any();
    kani::assume(ki < 2);
    if kani::any() {
        let v: u8 = kani::any();
        must(s.w.put(kb(k[ki]), kb(v)));
        model[ki] = Some(v);
    } else {
        let was = must(s.w.delete(kb(k[ki])));
        assert!(was == model[ki].is_some(), "delete's return value differs from the reference map");
        model[ki] = None;
    }
}

s_harness! {
/// Arbitrary directory of one data file (<= 2 records), real recovery, ONE symbolic operation with
/// symbolic `max_file_size` (rollover or not), then both keys read back.
fn c01_step1() {
    let k = key_pool();
    let mut model: Model = [None, None];
    gen_datafile(0, 2, &k, &mut model);
    let mut s = open_store(mk_conf(kani::any(), 2, false));
    sym_write_op(&mut s, &k, &mut model);
    check_reads(&s, &k, &model);
    kani::cover!(s.w.active_fileid == 2, "rollover happened");
    kani::cover!(s.w.active_fileid == 1, "no rollover");
    std::mem::forget(s);
} }
