"""Property -> harness table: which Kani harnesses decide which property, at which tier, with which
bounds.  Everything a check claims is derived from this table and from what Kani reports."""

# unwind rules: (regex on the pretty function name, loop index, bound)
STORE_RULES = [
    (r"^storage::bitcask::populate_keydir_with_(data|hint)file::<[^>]*>$", 0, 6),
    (r"^storage::bitcask::rebuild_storage::<[^>]*>$", 0, 10),
]


def H(name, tier="quick", timeout=900, covers=(), rules=(), mem_gb=14, fsens=2048, note="", crate=None):
    return dict(name=name, tier=tier, timeout=timeout, covers=list(covers), rules=list(rules), mem_gb=mem_gb,
                fsens=fsens, note=note, crate=crate)


# recursion of the two parser entry points is unwound 3 times in the whole-function harnesses (inputs
# are assumed to contain at most one '*', so depth 2 is never exceeded: the unwinding assertion checks it)
REC_RULES = [(r"^net::frame::Frame::(check|parse)(_nested)?$", None, 3)]

# the drop glue of the recursive `Frame` type: unwound 3 times (frames in these harnesses are at most an
# array of non-array items; the unwinding assertion checks that nothing deeper is dropped)
DROP_RULES = [(r"^std::ptr::drop_glue::<net::frame::Frame>$", None, 3)]

NET_STUBS = [
    "alloc::fmt::format -> empty String (error-message text only)",
    "String::from_utf8_lossy -> empty str (error-message text only)",
]

PROPS = {
    "C07": dict(
        crate="net",
        title="The RESP parser is total: no input panics, aborts or mis-reads a number",
        harnesses=[
            H("c07_small_readers", timeout=300),
            H("c07_get_line_16", timeout=300),
            H("c07_get_integer_total_24", timeout=900),
            H("c07_int_exact_small_p01", timeout=1200, covers=["a 7-digit negative number accepted"]),
            H("c07_int_exact_small_p19", timeout=1200, covers=["a 7-digit negative number accepted"]),
            H("c07_int_exact_limit_p01", timeout=1200, covers=["i64::MAX accepted", "i64::MIN accepted", "an out-of-range number rejected"]),
            H("c07_int_exact_limit_p19", timeout=1200, covers=["i64::MAX accepted", "i64::MIN accepted", "an out-of-range number rejected"]),
            H("c07_depth", timeout=900, covers=["nesting beyond the cap is rejected"]),
            H("c07_get_integer_total_44", tier="thorough", timeout=2400),
            H("c07_int_exact_small_p24", tier="thorough", timeout=1800, covers=["a 7-digit negative number accepted"]),
            H("c07_int_exact_limit_p18", tier="thorough", timeout=1800, covers=["i64::MAX accepted", "i64::MIN accepted", "an out-of-range number rejected"]),
            H("c07_int_exact_limit_p24", tier="thorough", timeout=1800, covers=["i64::MAX accepted", "i64::MIN accepted", "an out-of-range number rejected"]),
        ],
        bounds={
            "get_integer totality": "buffer of N fully symbolic bytes (N=24 quick, 44 thorough), symbolic length 1..N, symbolic start offset 1..len",
            "get_integer exactness": "concrete start offsets {1,19} (thorough: +{18,24}); (a) <= 7 symbolic digits, (b) symbolic sign + 16 concrete digits 9223372036854775 + symbolic tail: all 17..20-digit numbers around both i64 limits",
            "check/parse": "whole-function harnesses on a symbolic buffer do not fit (DESIGN.md 0.2/7) and are not registered; the agreement clause is not decided",
            "depth": "40 concrete nested '*1\\r\\n' headers followed by 4 symbolic bytes must be rejected by check and parse; recursion unwinding assertion at 45",
            "outside": "buffers longer than N; the unrestricted 20-digit value-equality query (does not finish in 30 min); stack use per frame (measured by the native replay only)",
        },
        assumptions=NET_STUBS + [
            "bytes::{Bytes,Buf} are the inline-array model of models/bytes (Buf for Cursor transcribed from bytes-1.0.1 including its panics)",
            "readers are entered with 1 <= pos <= len, as Frame::check/parse establish by get_byte",
            "Kani models the dev profile (overflow checks on); release-profile wrap-around is observed by the native replay",
        ],
    ),
    "C08": dict(
        crate="net",
        title="RESP encoding and decoding round-trip, independent of stream chunking (REDUCED: decoder side, bulk strings / null / arrays)",
        harnesses=[
            H("c08_null", timeout=600, rules=REC_RULES + DROP_RULES),
            H("c08_bulk_0", timeout=900, rules=REC_RULES + DROP_RULES),
            H("c08_bulk_2", timeout=900, rules=REC_RULES + DROP_RULES),
            H("c08_bulk_4", timeout=900, rules=REC_RULES + DROP_RULES),
            H("c08_array_bulk2", timeout=1500, rules=REC_RULES + DROP_RULES),
            H("c08_array_mixed", timeout=1500, rules=REC_RULES + DROP_RULES),
            H("c08_array_empty", timeout=900, rules=REC_RULES + DROP_RULES),
            H("c08_array_short_elems2", timeout=1500, rules=REC_RULES + DROP_RULES),
            H("c08_array_short_elems3", timeout=1500, rules=REC_RULES + DROP_RULES),
            H("c08_simple_0", timeout=600, rules=REC_RULES + DROP_RULES),
            H("c08_integer_c_neg", timeout=600, rules=REC_RULES + DROP_RULES),
            H("c08_integer_c_pos", timeout=600, rules=REC_RULES + DROP_RULES),
        ],
        bounds={
            "frames": "BulkString of 0,2,4 arbitrary SYMBOLIC bytes (CR, LF, NUL included); Null; the empty simple string; the integers :-7 and :42 (concrete digits); arrays: [bulk(1 symbolic byte), bulk(2 symbolic bytes)] (the shape of every request), [:7, $-1, +q], [], [+, :7], [+, -, :7] (elements of minimal length)",
            "stream": "(1a) the encoding alone at the end of the buffer and (1b) followed by 3 SYMBOLIC bytes: check accepts exactly the encoding's length and parse returns the frame at that position; (2) every strict prefix of >= 1 byte of a non-array frame is Incomplete (cut points enumerated in the harness; the empty prefix is c07_small_readers)",
            "outside": "simple strings, errors and integers with symbolic contents at whole-function level (c08_simple_*, c08_integer_* are written but do not finish in 10 min: error paths of line/number readers send niche-encoded Results through `?`, DESIGN.md 0.2/7) - their readers are decided at leaf level under C07 (get_line, get_integer exactness); prefixes of arrays; the encoder (Connection::write_frame: async/tokio); Connection::read_frame's loop and its EOF distinction; longer payloads; nested arrays",
        },
        assumptions=NET_STUBS + [
            "bytes::{Bytes,Buf} are the inline-array model of models/bytes",
            "the reference encoder of the harness equals Connection::write_frame (trusted base; the same byte strings as the repository's own write_frame test cases)",
            "recursion of Frame::check/parse and of Frame's drop glue unwound 3 times (unwinding assertions prove deeper recursion unreachable on these inputs)",
        ],
    ),
}

STORE_ASSUME = [
    "environment models of /verif/models (DESIGN.md 2.3): model file system (one call = one atomic step; POSIX append/create_new/unlink semantics), memmap2 (length snapshot), DashMap/LruCache/Mutex/ArrayQueue/AtomicCell (sequential), chrono (harness-controlled), tracing (no effects), bytes (inline arrays)",
    "std::io is the shim's transcription (Error, Read/Write/Seek, BufWriter/BufReader with capacity 8 instead of 8192, io::copy with an 8-byte buffer); std::path / ffi::OsStr / collections::BTreeSet are the shim's by-value models (DESIGN.md 2.3)",
    "bincode is the compact model codec (decode(encode(e)) == e, length a function of field lengths, truncated input -> UnexpectedEof)",
    "utils::datafile_name / hintfile_name stubbed by a digit-arithmetic name builder; core::slice::memchr::memchr stubbed by a naive loop",
    "Writer/Reader/Context are built with struct literals exactly as Bitcask::open lines 155-187 do (no thread, tokio runtime or broadcast channel)",
    "keys: pool of 2 concrete 1-byte keys; values: 1 symbolic byte; timestamps concrete 0; file ids < 8; files <= 32 bytes",
]

SHAPES_NOTE = "operation shapes are concrete and enumerated (DESIGN.md section 9 (b)): S1 tombstone-on-disk + rollover on every write + reopen; S2 overwrite/delete/absent-delete/merge of the active file/write/reopen via hint; S3 older live file + newer tombstone-only file, merge selected by fragmentation 0.4, reopen; S4 merge output with hint on disk + older file, merge rolling over into several outputs, reopen; S5 selection by dead bytes, two merges, reopen; S8/S9 the two halves of S2 (S8: overwrite, absent delete, put, delete; S9: merge of the active file, write, reopen via hint); S7 empty directory, rollover on every write, put a / put b each read back at once; S6 older all-dead file + newer file with the tombstone selected by dead bytes, reopen. Symbolic within a shape: every value byte"


# L level: the codec contract that every store-level harness assumes, decided for the REAL bincode on the
# repository's own entry types (shadow-log: real bincode, real std::io).
CODEC_CONTRACT = [H("l_codec_hint_entry", crate="log", timeout=600), H("l_codec_data_entry", crate="log", timeout=1500)]


def _kills(prefix, ks, quick=()):
    return [H("%s_k%02d" % (prefix, k), tier=("quick" if k in quick else "thorough"), timeout=1800, rules=STORE_RULES) for k in ks]


def _shapes(prefix, which, tier_of=lambda i: "quick", timeout=1500, covers=None):
    covers = covers or {}
    # shape 2 (eight steps with reads after each) peaks above 14 GB while kani-driver parses CBMC's output
    return [H("%s_shape_%d" % (prefix, i), tier=tier_of(i), timeout=timeout, rules=STORE_RULES, covers=covers.get(i, []), mem_gb=(28 if i == 2 else 14)) for i in which]


PROPS.update({
    "C01": dict(crate="store", title="The store behaves as a key-value map for every operation sequence",
                harnesses=_shapes("c01", [1, 2, 3, 4, 5, 6, 7, 8, 9], tier_of=lambda i: "quick" if i in (1, 3, 4, 7, 8, 9) else "thorough", covers={1: ["three rollovers"], 2: ["the merge wrote a hint entry"], 9: ["the merge wrote a hint entry"]}) + [H("c01_bigentry", timeout=1500, rules=STORE_RULES, covers=["both writes rolled over"]), H("c01_merge3", timeout=1500, rules=STORE_RULES, covers=["the merge wrote a third output file"])] + CODEC_CONTRACT,
                bounds={"shapes": SHAPES_NOTE, "merge3": "S13 (c01_merge3): three live keys, merge of everything rolling over into three output files, reads after the merge and after a reopen", "bigentry": "S12 (c01_bigentry): a put whose record (8 bytes, 3 SYMBOLIC value bytes) is as long as the scaled write buffer (8), longer than one scaled BufReader fill and larger than max_file_size (0); read back at once, after a later write, and after a reopen", "outside": "longer histories, more keys, longer keys/values, real DashMap/LRU/mmap implementations, real bincode layout, the real 8 KiB buffer size (scaled to 8 bytes)"},
                assumptions=STORE_ASSUME),
    "C02": dict(crate="store", title="Closing and reopening a store preserves exactly its contents, deletions included",
                harnesses=[H("c01_shape_1", timeout=1500, rules=STORE_RULES, covers=["three rollovers"]), H("c01_shape_9", timeout=1500, rules=STORE_RULES), H("c01_shape_4", timeout=1500, rules=STORE_RULES), H("c02_reopen3", timeout=1500, rules=STORE_RULES),
                           H("c01_shape_2", tier="thorough", timeout=1500, rules=STORE_RULES, mem_gb=28),
                           H("c01_shape_3", timeout=1500, rules=STORE_RULES), H("c01_shape_5", tier="thorough", timeout=1500, rules=STORE_RULES), H("c12_shape_4", tier="thorough", timeout=1500, rules=STORE_RULES)],
                bounds={"shapes": SHAPES_NOTE + "; every shape ends with a reopen through the real rebuild_storage (scan path and hint path) and re-reads both keys; S14 (c02_reopen3): a directory with a deleted key, an overwritten key and a hinted merge output is opened three times in a row without writing: same reads, statistics equal to ground truth, total data size unchanged, one new empty file per open", "outside": "two-digit file ids and foreign directory entries (name parsing is executed on single-digit ids only)"},
                assumptions=STORE_ASSUME),
    "C05": dict(crate="store", title="Compaction never changes what any key reads, now or after a restart",
                harnesses=_shapes("c01", [2, 3, 4, 5, 6, 9], tier_of=lambda i: "quick" if i in (3, 4, 6, 9) else "thorough", covers={2: ["the merge wrote a hint entry"], 6: ["the tombstone's file was merged"], 9: ["the merge wrote a hint entry"]}) + [H("c01_merge3", timeout=1500, rules=STORE_RULES, covers=["the merge wrote a third output file"])],
                bounds={"shapes": SHAPES_NOTE + "; S13 (c01_merge3): THREE live keys in one file, merge of everything with max_file_size 0 (three output files: an entry copied after a rollover), reads after the merge and after a reopen through the hint files; merges selected by: everything (S2, S4), fragmentation > 0.4 (S3), dead bytes > 0 (S5), followed by reads and by a reopen", "outside": "thresholds are concrete per shape (a symbolic threshold makes the selected set symbolic and the run intractable - measured)"},
                assumptions=STORE_ASSUME),
    "C12": dict(crate="store", title="Hint files are only an accelerator: recovery with or without them agrees",
                harnesses=[H("c12_direct_4", timeout=1800, rules=STORE_RULES), H("c12_direct_2", timeout=1800, rules=STORE_RULES),
                           H("c12_shape_6", tier="thorough", timeout=2400, mem_gb=28, rules=STORE_RULES, covers=["a non-empty hint file existed"]),
                           H("c12_shape_5", tier="thorough", timeout=1800, rules=STORE_RULES, covers=["a non-empty hint file existed"]),
                           H("c12_shape_2", tier="thorough", timeout=2400, mem_gb=28, rules=STORE_RULES, covers=["a non-empty hint file existed"]),
                           H("c12_shape_4", tier="thorough", timeout=2400, mem_gb=28, rules=STORE_RULES, covers=["a non-empty hint file existed"])],
                bounds={"shapes": SHAPES_NOTE + "; after the shape the index is rebuilt twice by the real rebuild_storage, as is and with every *.hint unlinked, and both pool keys are resolved through both; c12_direct_*: after every step every hint entry is checked against the data file of its id (shape 4: a merge rolling over into several output files)", "outside": "as C01"},
                assumptions=STORE_ASSUME),
    "C13": dict(crate="store", title="Compaction actually reclaims space and never grows the store",
                harnesses=_shapes("c14", [2, 3, 4, 5, 9], tier_of=lambda i: "quick" if i in (4, 9) else "thorough")
                + [H("c13_partial", timeout=1500, rules=STORE_RULES, covers=["the older file was merged, the newer one left alone"]), H("c13_twice", timeout=1500, rules=STORE_RULES)],
                bounds={"shapes": SHAPES_NOTE + "; S10 (c13_partial): an older tombstone-only file (eligible by dead bytes) and a newer clean file (not eligible): afterwards the store holds exactly the one live record; S11 (c13_twice): put a, put b, del a, merge of everything, the same merge again: total size and number of non-empty data files unchanged. Total length of the linked *.data inodes compared before/after every real merge (never grows); after every merge with thresholds that make every file eligible the total equals (number of live keys) x (encoded size of a value record)",
                        "outside": "idempotence is decided on sizes and file counts, not on file contents; keys/values of one byte, so 'as large as a fresh store' is a count of records"},
                assumptions=STORE_ASSUME),
    "C14": dict(crate="store", title="Data files are append-only and immutable, with ids that only grow",
                harnesses=_shapes("c14", [1, 2, 3, 4, 5, 9], tier_of=lambda i: "quick" if i in (1, 4, 9) else "thorough"),
                bounds={"shapes": SHAPES_NOTE + "; the monitor inside the model file system is asserted after every step: exclusive create + append by the creator only, no rename/set_len/truncate/open-for-write, ids per kind strictly above every earlier id, no data file beyond max_file_size by more than one entry", "outside": "bytes-never-change is enforced by construction of the model (appends only)"},
                assumptions=STORE_ASSUME),
    "C19": dict(crate="store", title="Per-file live/dead accounting always matches the files' real contents",
                harnesses=_shapes("c19", [1, 2, 3, 4, 5, 6, 8, 9], tier_of=lambda i: "quick" if i in (1, 3, 4, 8, 9) else "thorough"),
                bounds={"shapes": SHAPES_NOTE + "; after every step the real LogStatistics of every file are compared with ground truth computed by the harness from the file bytes and the real index; counter arithmetic is overflow-checked by Kani", "outside": "as C01"},
                assumptions=STORE_ASSUME),
    "C03": dict(crate="store", title="A process crash at any instant loses no acknowledged write and corrupts nothing",
                harnesses=_kills("c03_b", range(0, 11), quick=(3, 5)) + _kills("c03_c", range(4, 27), quick=(12, 16)) + _kills("c03_a", range(6, 29), quick=(16,)) + _kills("c03_d", range(8, 27), quick=(21,)),
                bounds={"shapes": "A: two values on disk; open, del a, merge of everything, put b. B: empty directory, rollover on every write; put a, put b, del a. C: two values on disk, merge rolling over into several outputs. D: value in an older file, its tombstone in a newer one, merge of both. One harness instance per CONCRETE kill point k (the directory is snapshotted before file-system call number k); thorough spans every call of the run, quick a subset inside the merge / rollover windows; SYMBOLIC: every value byte. After the run the directory as of the kill is installed and the real rebuild_storage is run on it", "outside": "a second kill during the recovery after the first; longer workloads"},
                assumptions=STORE_ASSUME + ["process-kill failure model: the page cache survives, the directory is exactly the effect of the prefix of calls"]),
    "C09": dict(crate="store", title="With sync=always an acknowledged write survives power loss, merges included",
                harnesses=_kills("c09_b", range(2, 14), quick=(5, 7)) + _kills("c09_c", range(6, 31), quick=(12, 15, 16)) + _kills("c09_a", range(10, 33), quick=(18, 22)),
                bounds={"shapes": "as C03 with sync=always; additionally SYMBOLIC per file: the surviving length, anywhere between the length at its last completed fsync and its written length; creations and removals issued persist", "outside": "directory-entry durability (the property's failure model makes creations/removals persistent)"},
                assumptions=STORE_ASSUME),
    "C20": dict(crate="store", title="A failed disk operation is reported and leaves the store consistent",
                harnesses=[H("c20_m0_k00", timeout=900, rules=STORE_RULES), H("c20_m0_k01", timeout=900, rules=STORE_RULES), H("c20_m0w_k00", timeout=900, rules=STORE_RULES),
                           H("c20_m5_k01", timeout=1200, rules=STORE_RULES), H("c20_r_k03", timeout=1200, rules=STORE_RULES, covers=["the fault was injected into the recovery"]), H("c20_m4_k09", timeout=1500, mem_gb=20, rules=STORE_RULES), H("c20_m3_k09", timeout=1500, mem_gb=20, rules=STORE_RULES), H("c20_m3_k02", timeout=1500, mem_gb=20, rules=STORE_RULES), H("c20_m5_k00", tier="thorough", timeout=1200, rules=STORE_RULES), H("c20_m5w_k00", tier="thorough", timeout=1200, rules=STORE_RULES)]
                + [H("c20_m3_k%02d" % k, tier="thorough", timeout=1800, mem_gb=20, rules=STORE_RULES) for k in range(0, 10) if k not in (2, 9)]
                + [H("c20_m4_k%02d" % k, tier="thorough", timeout=1800, mem_gb=20, rules=STORE_RULES) for k in range(0, 10) if k != 9]
                + [H("c20_r_k%02d" % k, tier="thorough", timeout=1200, rules=STORE_RULES) for k in range(0, 10) if k != 3]
                + [H("c20_m1_k%02d" % k, tier="thorough", timeout=2400, mem_gb=24, rules=STORE_RULES, covers=["the fault was injected"]) for k in range(0, 4)]
                + [H("c20_m1w_k%02d" % k, tier="thorough", timeout=2400, mem_gb=24, rules=STORE_RULES, covers=["the fault was injected"]) for k in (0, 2)]
                + [H("c20_m2_k%02d" % k, tier="thorough", timeout=2400, mem_gb=24, rules=STORE_RULES) for k in range(0, 16)]
                + [H("c20_a_k%02d" % k, tier="thorough", timeout=3600, mem_gb=28, rules=STORE_RULES) for k in range(0, 8)]
                + [H("c20_b_k%02d" % k, tier="thorough", timeout=3600, mem_gb=28, rules=STORE_RULES) for k in range(0, 18)],
                bounds={"shapes": "M3: a value on disk; merge of everything with the fault at file-system call k of the merge (k = 0..9: stat, creation of the merge data / hint file, open and mmap of the source, write of the data / hint entry, removal of the source hint / data file, creation of the next active file), then a fault-free put of the same key read back in-process and after a restart. M4: the same with the active file among the merged files. M5: put a failing at its write / at the creation of the next file / as a short write, then an acknowledged delete of a, restart (the key must stay deleted). After every restart: no file of either kind carries an id >= the id the restarted store writes into. R: a fault at file-system call k (0..9) of the start-up scan of a directory with a hinted merge output and a newer file holding an overwrite and a tombstone: the open reports an error, changes nothing, and a second fault-free open reads every key correctly. M0 (quick): empty directory, rollover on every write; put a with the fault at its write / at the creation of the next file / as a short write, then a fault-free put b read back in-process. M1: put a, put b with reads after each and a restart. M2: two values on disk; merge of everything, put b, restart. A: rollover on every write; put a, put b, del a, put a. B: values on disk; del a, merge of everything, put b (A, B: thorough only - an injected error travels through niche-encoded Results in the real code whose discriminant CBMC does not fold, so every later step is explored twice; 25+ min and > 14 GB per instance). One harness instance per CONCRETE failing call k (counted after the open: create, write, fsync, unlink, stat, open, mmap, read - whatever the k-th call is) and failure mode (error without effect; for writes also: short write of 3 bytes, then an error); SYMBOLIC: every value byte. Followed by a restart", "outside": "more than one fault; entries larger than the write buffer; a fault at the creation of the first active file in Bitcask::open (not part of rebuild_storage)"},
                assumptions=STORE_ASSUME),
    "C17": dict(crate="store", title="A closed store rejects all use (REDUCED: closed-handle clause only)",
                harnesses=[H("c17_closed", timeout=1500, rules=STORE_RULES)],
                bounds={"scope": "after Handle::close (what Drop for Bitcask calls) a SYMBOLIC choice among put/delete/get/merge/sync and the three KeyValueStorage methods returns Error::Closed and issues no file-system call; reopening continues with id max+1 and unchanged contents", "outside": "prompt exit of the background thread, thread/descriptor accumulation, wake-up from a long timer: tokio runtime, broadcast channel and OS threads cannot be encoded"},
                assumptions=STORE_ASSUME),
    "C18": dict(crate="store", title="Background merge and sync follow the configured policy (REDUCED: decision predicates only)",
                harnesses=[H("c18_can_merge", timeout=1500, covers=["a merge is due in the last hour of the window"]),
                           H("c18_selection", timeout=1500, covers=["an older file is merged while the newest is not"])],
                bounds={"scope": "Context::can_merge: SYMBOLIC policy, window start/end, clock hour, dead-bytes trigger, dead bytes; enumerated live/dead counts 0..3 x 0..3 and fragmentation trigger {0,.25,.5,.75,1}. Context::fileids_to_merge over 3 files: SYMBOLIC dead bytes, file lengths, dead-bytes and small-file thresholds; concrete key counts, fragmentation threshold {0,.4,1}", "outside": "that a merge/sync actually happens within interval +- jitter: merge_on_interval / sync_on_interval are async code over tokio timers and rand"},
                assumptions=STORE_ASSUME),
    "C04": dict(crate="store", title="Concurrent gets, sets and deletes are linearizable and never panic or hang (REDUCED: sequentialised writer || reader)",
                harnesses=[H("c04_stale_map", timeout=900, rules=STORE_RULES),
                           H("c04_put_k00", timeout=1500, rules=STORE_RULES, covers=["the probe ran inside the operation"]),
                           H("c04_put_k01", tier="thorough", timeout=1500, rules=STORE_RULES),
                           H("c04_del_k00", timeout=1500, rules=STORE_RULES, covers=["the probe ran inside the operation"]),
                           H("c04_del_k01", tier="thorough", timeout=1500, rules=STORE_RULES)]
                + [H("c04_rget_merge_k00", timeout=1500, rules=STORE_RULES, covers=["the writer-side operation ran inside the get"]),
                   H("c04_rget_putb_k00", timeout=1500, rules=STORE_RULES, covers=["the writer-side operation ran inside the get", "an interleaving the shard lock allows"]),
                   H("c04_rget_merge_k01", tier="thorough", timeout=1500, rules=STORE_RULES), H("c04_rget_putb_k01", tier="thorough", timeout=1500, rules=STORE_RULES),
                   H("c04_rget_dela_k00", tier="thorough", timeout=1500, rules=STORE_RULES), H("c04_rget_puta_k00", tier="thorough", timeout=1500, rules=STORE_RULES)]
                + [H("c04_merge_k%02d" % k, tier=("quick" if k in (6, 8, 10) else "thorough"), timeout=1800, rules=STORE_RULES) for k in (2, 4, 6, 7, 8, 9, 10, 11, 12, 13, 14, 15, 16)],
                bounds={"scope": "(i) stale map: a reader's mapping taken at a SYMBOLIC length strictly inside a record (between two write calls of one append); once the record is complete and indexed the real LogDir::read must return it. (ii) probe: two values on disk, the reader has read them (old maps); ONE writer-side operation (put / delete / merge of everything) runs and, before file-system call number k of that operation (one harness instance per k), a real Reader::get of both keys must return the value before or after the operation, never an error or a panic. Symbolic: value bytes, the partial length. (iii) the dual: ONE reader-side get of a key whose file the reader has not opened yet is preempted before its open / its mmap, and a complete writer-side operation (merge of everything, put of the other key, put / delete of the same key) runs there; interleavings in which the writer would have to modify the index entry the get holds its read guard on are infeasible in the real DashMap (shard lock) and are discarded, every remaining one must return the value before or after the operation",
                        "outside": "real thread interleavings inside DashMap/parking_lot/crossbeam, preemption between two index operations without a file-system call in between, two racing readers, more than one in-flight writer-side operation, memory ordering, termination of the spin loop, the reader pool under panics"},
                assumptions=STORE_ASSUME + ["sequentialisation: preemption matters only at file-system calls; library internals are atomic"]),
})
