//! C01 — map semantics; C02 — reopen; C05 — merge preserves reads; C13 — merge reclaims space;
//! C14 — append-only files; C19 — accounting.  All run the shared shapes of `sc.rs` with the
//! property's assertions switched on.
use super::sc::*;
use super::*;

// C01 / C02 / C05: reads (and delete's return value) equal the reference map after every step
s_harness! { fn c01_shape_1() { shape_1::<CHK_READS>() } }
s_harness! { fn c01_shape_2() { shape_2::<CHK_READS>() } }
s_harness! { fn c01_shape_3() { shape_3::<CHK_READS>() } }
s_harness! { fn c01_shape_4() { shape_4::<CHK_READS>() } }
s_harness! { fn c01_shape_5() { shape_5::<CHK_READS>() } }

// C19: accounting equals ground truth after every step
s_harness! { fn c19_shape_1() { shape_1::<CHK_STATS>() } }
s_harness! { fn c19_shape_2() { shape_2::<CHK_STATS>() } }
s_harness! { fn c19_shape_3() { shape_3::<CHK_STATS>() } }
s_harness! { fn c19_shape_4() { shape_4::<CHK_STATS>() } }
s_harness! { fn c19_shape_5() { shape_5::<CHK_STATS>() } }

// C13 (size never grows) + C14 (monitor) after every step
s_harness! { fn c14_shape_1() { shape_1::<{ CHK_MONITOR | CHK_SIZES }>() } }
s_harness! { fn c14_shape_2() { shape_2::<{ CHK_MONITOR | CHK_SIZES }>() } }
s_harness! { fn c14_shape_3() { shape_3::<{ CHK_MONITOR | CHK_SIZES }>() } }
s_harness! { fn c14_shape_4() { shape_4::<{ CHK_MONITOR | CHK_SIZES }>() } }
s_harness! { fn c14_shape_5() { shape_5::<{ CHK_MONITOR | CHK_SIZES }>() } }

s_harness! { fn c01_shape_6() { shape_6::<CHK_READS>() } }
s_harness! { fn c19_shape_6() { shape_6::<CHK_STATS>() } }
s_harness! { fn c14_shape_6() { shape_6::<{ CHK_MONITOR | CHK_SIZES }>() } }
s_harness! { fn c01_shape_7() { shape_7::<CHK_READS>() } }
s_harness! { fn c01_shape_8() { shape_8::<CHK_READS>() } }
s_harness! { fn c01_shape_9() { shape_9::<CHK_READS>() } }
s_harness! { fn c19_shape_8() { shape_8::<CHK_STATS>() } }
s_harness! { fn c19_shape_9() { shape_9::<CHK_STATS>() } }
s_harness! { fn c14_shape_9() { shape_9::<{ CHK_MONITOR | CHK_SIZES }>() } }
// C13: partial selection (nothing live is copied out of a file that is left alone) and idempotence
s_harness! { fn c13_partial() { shape_10::<{ CHK_SIZES | CHK_READS }>() } }
s_harness! { fn c13_twice() { shape_11::<{ CHK_SIZES | CHK_READS }>() } }
// C01: an entry as large as the write buffer and larger than max_file_size
s_harness! { fn c01_bigentry() { shape_12() } }
// C01/C05: three live keys, merge rolling over into three output files, restart
s_harness! { fn c01_merge3() { shape_13() } }
// C02: reopening any number of times without writing changes nothing
s_harness! { fn c02_reopen3() { shape_14() } }
