pub use model_tracing_attr::instrument;
#[macro_export] macro_rules! debug { ($($t:tt)*) => {{}} }
#[macro_export] macro_rules! info { ($($t:tt)*) => {{}} }
#[macro_export] macro_rules! error { ($($t:tt)*) => {{}} }
#[macro_export] macro_rules! warn { ($($t:tt)*) => {{}} }
#[macro_export] macro_rules! trace { ($($t:tt)*) => {{}} }
