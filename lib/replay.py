"""Replay before reporting: turn the solver's assignment into an ordinary native test and run it.

Step 1: re-run the failing harness with `-Z concrete-playback --concrete-playback=print`; Kani prints a
        unit test that feeds the counterexample's concrete values to the harness through `kani::any()`.
Step 2: the test is appended to the harness module of the shadow crate and executed NATIVELY
        (`cargo kani playback`: rustc, no CBMC) — the repository's real code, compiled as ordinary Rust,
        over the same environment models.  Only if the native run fails (panic / failed assertion) is the
        counterexample reported; otherwise the encoding or a model is wrong and the check is inconclusive.
The replay file records the harness, the failed checks, the concrete values and the generated test, so that
`bin/replay <file>` can run it again against the current tree."""
import hashlib
import json
import os
import re
import subprocess

import kanirun

ROOT = os.path.dirname(os.path.dirname(os.path.abspath(__file__)))

MODFILE = {
    "store": "src/storage/bitcask/verif_harness.rs",
    "log": "src/storage/bitcask/verif_harness.rs",
    "net": None,  # depends on the harness: frame or command
}


def _module_file(crate, crate_dir, harness):
    if crate != "net":
        return os.path.join(crate_dir, MODFILE[crate])
    # find which harness module defines it
    for sub in ("frame", "command"):
        d = os.path.join(crate_dir, "src/net", sub, "verif_harness")
        for f in os.listdir(d) if os.path.isdir(d) else []:
            with open(os.path.join(d, f)) as fh:
                if re.search(r"fn %s\s*\(" % re.escape(harness), fh.read()):
                    return os.path.join(d, f)
    return os.path.join(crate_dir, "src/net/frame/verif_harness.rs")


def extract_test(text):
    m = re.search(r"```\s*\n(.*?#\[test\].*?)```", text, re.S)
    if not m:
        m = re.search(r"(/// Test generated for harness.*?\n}\n)", text, re.S)
    return m.group(1) if m else None


def run_playback(crate, crate_dir, harness, test_src, logdir, timeout=1500):
    """Append the generated test next to the harness and run it natively.  Returns (reproduced, detail)."""
    mf = _module_file(crate, crate_dir, harness)
    name = re.search(r"fn (kani_concrete_playback_\w+)", test_src)
    if not name:
        return False, "no test name in generated playback"
    tname = name.group(1)
    with open(mf) as fh:
        orig = fh.read()
    try:
        with open(mf, "a") as fh:
            fh.write("\n" + test_src + "\n")
        log = os.path.join(logdir, "%s.playback.log" % harness)
        cmd = ["cargo", "kani", "playback", "-Z", "concrete-playback", "--", tname]
        env = dict(kanirun.KANI_ENV, CARGO_TARGET_DIR=os.path.join(ROOT, ".cache", "target-playback-" + crate))
        with open(log, "w") as fh:
            try:
                p = subprocess.run(cmd, cwd=crate_dir, stdout=fh, stderr=subprocess.STDOUT, env=env, timeout=timeout)
                rc = p.returncode
            except subprocess.TimeoutExpired:
                return False, "native playback timed out"
        with open(log) as fh:
            out = fh.read()
        if re.search(r"test result: FAILED|panicked at|FAILED", out) and re.search(tname, out):
            msg = re.findall(r"panicked at [^\n]*\n[^\n]*", out)
            return True, (msg[0][:300] if msg else "native test failed")
        if "test result: ok" in out:
            return False, "native playback passed (the counterexample does not reproduce)"
        return False, "native playback did not run (rc=%s): %s" % (rc, out[-300:])
    finally:
        with open(mf, "w") as fh:
            fh.write(orig)


def confirm(pid, crate, crate_dir, target_dir, result, unknown_failed, logdir):
    harness = result["harness"]
    crate_name = "shadow_" + crate
    os.makedirs(os.path.join(ROOT, "replays"), exist_ok=True)
    rules = [(re.escape(u["fn"]) + "$", u["loop"], u["bound"]) for u in result.get("unwindset", [])]
    uws, _, _ = kanirun.unwindset_from_rules(target_dir, crate_name, harness, rules)
    cbmc = ["--max-field-sensitivity-array-size", "2048"]
    if uws:
        cbmc += ["--unwindset", uws]
    log = os.path.join(logdir, "%s.cex.log" % harness)
    cmd = kanirun.BASE_ARGS + ["--harness", harness, "--target-dir", target_dir, "-Z", "concrete-playback",
                               "--concrete-playback=print", "--cbmc-args"] + cbmc
    rc, to, wall = kanirun._run(cmd, crate_dir, 3600, 20, log)
    with open(log) as fh:
        text = fh.read()
    test_src = extract_test(text)
    desc = "; ".join(sorted(set(f["desc"] for f in unknown_failed)))
    h = hashlib.sha256((harness + desc).encode()).hexdigest()[:10]
    path = os.path.join(ROOT, "replays", "%s-%s-%s.json" % (pid, harness, h))
    rec = {
        "property": pid, "crate": crate, "harness": harness,
        "failed_checks": unknown_failed[:10],
        "kani_concrete_playback_test": test_src,
        "how_to_replay": "bin/replay %s   (appends the test to the shadow crate assembled from /repo and runs it natively)" % os.path.relpath(path, ROOT),
    }
    confirmed, why = False, "no concrete playback produced"
    if test_src:
        confirmed, why = run_playback(crate, crate_dir, harness, test_src, logdir)
    rec["native_replay"] = {"reproduced": confirmed, "detail": why}
    with open(path, "w") as fh:
        json.dump(rec, fh, indent=1)
    return {"confirmed": confirmed, "why": why, "path": path}
