//! Shadow crate `shadow-log` (L level): the same verbatim copies of /repo/src/storage/** as
//! `shadow-store`, but with the REAL `bincode`, the REAL `std::io` (BufWriter/BufReader scaled to 8
//! bytes through a wrapper) and the REAL `std::path`; only `fs`, `memmap2`, `lru`, `bytes`, `dashmap`,
//! `parking_lot`, `crossbeam`, `tracing`, `chrono`, `collections::BTreeSet` are models.  Its
//! harnesses discharge what the store-level harnesses assume of the codec and of the file-name
//! functions.
#![no_std]
#![feature(prelude_import)]
#![allow(unused, internal_features, rust_2018_idioms)]
extern crate vstd_shim as std;
#[macro_use]
extern crate std as __real_std;
#[prelude_import]
use std::prelude::rust_2021::*;

pub mod shutdown;
pub mod storage;
