//! Command-decoder harnesses (C06, reduced scope): child module of the verbatim copy of
//! `src/net/command.rs`.
#![allow(dead_code, unused_imports)]
use super::*;
use crate::net::frame::Error as FrameError;
use std::io::Cursor;

pub(crate) fn format_stub(_a: std::fmt::Arguments<'_>) -> String {
    String::new()
}
pub(crate) fn lossy_stub(_v: &[u8]) -> std::borrow::Cow<'_, str> {
    std::borrow::Cow::Borrowed("")
}

/// Stand-in for `core::str::from_utf8` (the real one branches on pointer alignment and reads
/// word-wise, which CBMC case-splits into the ground): a byte-at-a-time validator for inputs of at
/// most 4 bytes that accepts EXACTLY the well-formed UTF-8 sequences of the Unicode standard
/// (table 3-7: no overlong forms, no surrogates, nothing above U+10FFFF).  `Utf8Error` has private
/// fields, so the error value is produced by the real `from_utf8_mut` on a constant ill-formed input.
pub(crate) fn from_utf8_stub(v: &[u8]) -> Result<&str, std::str::Utf8Error> {
    assert!(v.len() <= 4, "model bound: from_utf8 stand-in handles at most 4 bytes");
    let n = v.len();
    let cont = |b: u8| b >= 0x80 && b <= 0xBF;
    let mut ok = true;
    let mut i = 0;
    let mut r = 0;
    while r < 4 {
        if ok && i < n {
            let b = v[i];
            if b < 0x80 {
                i += 1;
            } else if b >= 0xC2 && b <= 0xDF {
                if i + 1 < n && cont(v[i + 1]) { i += 2; } else { ok = false; }
            } else if b >= 0xE0 && b <= 0xEF {
                let lo = if b == 0xE0 { 0xA0 } else { 0x80 };
                let hi = if b == 0xED { 0x9F } else { 0xBF };
                if i + 2 < n && v[i + 1] >= lo && v[i + 1] <= hi && cont(v[i + 2]) { i += 3; } else { ok = false; }
            } else if b >= 0xF0 && b <= 0xF4 {
                let lo = if b == 0xF0 { 0x90 } else { 0x80 };
                let hi = if b == 0xF4 { 0x8F } else { 0xBF };
                if i + 3 < n && v[i + 1] >= lo && v[i + 1] <= hi && cont(v[i + 2]) && cont(v[i + 3]) { i += 4; } else { ok = false; }
            } else {
                ok = false;
            }
        }
        r += 1;
    }
    if ok {
        Ok(unsafe { std::str::from_utf8_unchecked(v) })
    } else {
        Err(utf8_error())
    }
}
fn utf8_error() -> std::str::Utf8Error {
    // `from_utf8_mut` is a different function (not stubbed): run it on a constant ill-formed byte
    let mut bad = [0xFFu8; 1];
    match std::str::from_utf8_mut(&mut bad) {
        Err(e) => e,
        Ok(_) => unreachable!(),
    }
}

macro_rules! c_harness { ($uw:expr, $(#[$m:meta])* fn $n:ident() $b:block) => {
    #[kani::proof]
    #[kani::unwind($uw)]
    #[kani::stub(alloc::fmt::format, format_stub)]
    #[kani::stub(std::string::String::from_utf8_lossy, lossy_stub)]
    #[kani::stub(core::str::from_utf8, from_utf8_stub)]
    $(#[$m])* fn $n() $b
} }

const TAIL: usize = 3;
struct Out<const M: usize> {
    b: [u8; M],
    n: usize,
}
impl<const M: usize> Out<M> {
    fn new() -> Self {
        Out { b: [0; M], n: 0 }
    }
    fn put(&mut self, x: u8) {
        self.b[self.n] = x;
        self.n += 1;
    }
    fn crlf(&mut self) {
        self.put(b'\r');
        self.put(b'\n');
    }
    fn bulk(&mut self, p: &[u8]) {
        assert!(p.len() < 10);
        self.put(b'$');
        self.put(b'0' + p.len() as u8);
        self.crlf();
        let mut i = 0;
        while i < p.len() {
            self.put(p[i]);
            i += 1;
        }
        self.crlf();
    }
    fn array(&mut self, n: usize) {
        self.put(b'*');
        self.put(b'0' + n as u8);
        self.crlf();
    }
    fn tail(&mut self) {
        let t: [u8; TAIL] = kani::any();
        let mut i = 0;
        while i < TAIL {
            self.b[self.n + i] = t[i];
            i += 1;
        }
    }
}

fn bytes_of(p: &[u8]) -> Bytes {
    Bytes::copy_from_slice(p)
}

/// Request bytes -> (real check, real parse, real `Command::try_from`): exactly the command sent,
/// exactly the request's length consumed, `Incomplete` on every strict prefix.
fn decode<const M: usize>(o: &Out<M>) -> Command {
    let prefixes = false; // requests are arrays
    // every strict prefix of at least one byte (the cut points are enumerated in the harness: a
    // symbolic cut makes the length of every reader loop symbolic and symex diverges - measured;
    // the empty prefix is `get_byte` on an empty buffer, decided in c07_small_readers).  Skipped
    // for arrays (`prefixes == false`): an `Err` travelling through `?` is a niche-encoded
    // `Result<i64/u8, frame::Error>` whose discriminant CBMC does not fold, the "Ok" side then
    // carries a garbage element count into the element loop and the recursion (measured: > 9 GB).
    let mut cut = 1;
    while prefixes && cut < o.n {
        let mut c = Cursor::new(&o.b[..cut]);
        let r = Frame::check(&mut c);
        assert!(r == Err(FrameError::Incomplete), "a strict prefix of a valid encoding is not reported as incomplete");
        std::mem::forget(r);
        cut += 1;
    }
    let mut c = Cursor::new(&o.b[..o.n + TAIL]);
    let r = Frame::check(&mut c);
    assert!(r.is_ok(), "check rejects a well-formed request");
    assert!(c.position() as usize == o.n, "check accepts a length different from the request's");
    c.set_position(0);
    let f = match Frame::parse(&mut c) {
        Ok(f) => f,
        Err(_) => {
            assert!(false, "parse rejects a well-formed request");
            loop {}
        }
    };
    assert!(c.position() as usize == o.n, "parse consumed a length different from the request's");
    match Command::try_from(f) {
        Ok(cmd) => cmd,
        Err(_) => {
            assert!(false, "a well-formed request is not accepted as a command");
            loop {}
        }
    }
}

/// keys are valid UTF-8: here ASCII (the UTF-8 gate itself is exercised by `c06_gate`)
fn ascii<const L: usize>() -> [u8; L] {
    let s: [u8; L] = kani::any();
    let mut i = 0;
    while i < L {
        kani::assume(s[i] < 0x80);
        i += 1;
    }
    s
}

c_harness! { 40, fn c06_decode_set() {
    let k = ascii::<2>();
    let v: [u8; 3] = kani::any(); // arbitrary bytes incl. CR, LF, NUL
    let mut o = Out::<{ 36 }>::new();
    o.array(3);
    o.bulk(b"SET");
    o.bulk(&k);
    o.bulk(&v);
    o.tail();
    let cmd = decode(&o);
    let want = Command::Set(Set::new(Utf8Bytes(bytes_of(&k)), bytes_of(&v)));
    assert!(cmd == want, "SET decoded to a different command / key / value");
    std::mem::forget(cmd);
    std::mem::forget(want);
} }

c_harness! { 40, fn c06_decode_get() {
    let k = ascii::<2>();
    let mut o = Out::<{ 28 }>::new();
    o.array(2);
    o.bulk(b"GET");
    o.bulk(&k);
    o.tail();
    let cmd = decode(&o);
    let want = Command::Get(Get::new(Utf8Bytes(bytes_of(&k))));
    assert!(cmd == want, "GET decoded to a different command / key");
    std::mem::forget(cmd);
    std::mem::forget(want);
} }

c_harness! { 40, fn c06_decode_del2() {
    let k1 = ascii::<1>();
    let k2 = ascii::<2>();
    let mut o = Out::<{ 36 }>::new();
    o.array(3);
    o.bulk(b"DEL");
    o.bulk(&k1);
    o.bulk(&k2);
    o.tail();
    let cmd = decode(&o);
    let want = Command::Del(Del::new(vec![Utf8Bytes(bytes_of(&k1)), Utf8Bytes(bytes_of(&k2))]));
    assert!(cmd == want, "DEL decoded to a different command / key list");
    std::mem::forget(cmd);
    std::mem::forget(want);
} }

/// Command gate: for an arbitrary frame that is an array of <= 3 elements (bulk strings of <= 3
/// arbitrary bytes, or a non-bulk element), `try_from` returns `Ok` ONLY for the well-formed shapes
/// (exact upper-case name, exact arity, UTF-8 keys); a non-array frame is always refused.
c_harness! { 12, fn c06_gate() {
    let n: usize = kani::any();
    kani::assume(n <= 3);
    let name: [u8; 3] = kani::any();
    let nlen: usize = kani::any();
    kani::assume(nlen <= 3);
    let a1: [u8; 2] = kani::any();
    let a1len: usize = kani::any();
    kani::assume(a1len <= 2);
    let a2: [u8; 2] = kani::any();
    let first_is_bulk: bool = kani::any();
    let second_is_bulk: bool = kani::any();
    let mut items: Vec<Frame> = Vec::with_capacity(3);
    if n >= 1 {
        items.push(if first_is_bulk { Frame::BulkString(bytes_of(&name[..nlen])) } else { Frame::Integer(1) });
    }
    if n >= 2 {
        items.push(if second_is_bulk { Frame::BulkString(bytes_of(&a1[..a1len])) } else { Frame::Null });
    }
    if n >= 3 {
        items.push(Frame::BulkString(bytes_of(&a2)));
    }
    let is_array: bool = kani::any();
    let f = if is_array { Frame::Array(items) } else { Frame::BulkString(bytes_of(&name[..nlen])) };
    let r = Command::try_from(f);
    let nm = |s: &[u8; 3]| nlen == 3 && name[0] == s[0] && name[1] == s[1] && name[2] == s[2];
    let key_utf8 = std::str::from_utf8(&a1[..a1len]).is_ok();
    let a2_utf8 = std::str::from_utf8(&a2).is_ok();
    match &r {
        Ok(Command::Set(_)) => assert!(is_array && first_is_bulk && nm(b"SET") && n == 3 && second_is_bulk && key_utf8, "SET accepted from a malformed frame"),
        Ok(Command::Get(_)) => assert!(is_array && first_is_bulk && nm(b"GET") && n == 2 && second_is_bulk && key_utf8, "GET accepted from a malformed frame"),
        Ok(Command::Del(_)) => assert!(is_array && first_is_bulk && nm(b"DEL") && n >= 2 && second_is_bulk && key_utf8 && (n == 2 || a2_utf8), "DEL accepted from a malformed frame"),
        Err(_) => {}
    }
    kani::cover!(matches!(&r, Ok(Command::Set(_))), "a SET passed the gate");
    kani::cover!(matches!(&r, Ok(Command::Del(_))), "a DEL passed the gate");
    kani::cover!(matches!(&r, Err(Error::NotUtf8(_))), "a non-UTF-8 key was refused");
    std::mem::forget(r);
} }
