//! Shadow crate `shadow-store`: verbatim copies of /repo/src/{shutdown.rs,storage.rs,storage/**}
//! compiled against the environment models.  This file mirrors /repo/src/lib.rs minus
//! `conf` / `telemetry` / `net` (not anchored by any store property).
#![no_std]
#![feature(prelude_import)]
#![allow(unused, internal_features, rust_2018_idioms)]
extern crate vstd_shim as std;
#[macro_use]
extern crate std as __real_std;
#[prelude_import]
use std::prelude::rust_2021::*;

pub mod shutdown;
pub mod storage;

/// Glue (unreached by any harness): `background_tasks` builds a tokio runtime whose error type is
/// the real `std::io::Error`, while `storage::bitcask::Error::Io` holds the shim's `io::Error`.
impl From<__real_std::io::Error> for storage::bitcask::Error {
    fn from(_e: __real_std::io::Error) -> Self {
        storage::bitcask::Error::Io(std::io::Error::from(std::io::ErrorKind::Other))
    }
}
