use std::cell::{RefCell, RefMut};
#[derive(Debug)]
pub struct Mutex<T>(RefCell<T>);
unsafe impl<T: Send> Sync for Mutex<T> {}
pub type MutexGuard<'a, T> = RefMut<'a, T>;
impl<T> Mutex<T> {
    pub fn new(t: T) -> Self { Mutex(RefCell::new(t)) }
    pub fn lock(&self) -> RefMut<'_, T> { self.0.borrow_mut() }
}
