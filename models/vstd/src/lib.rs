//! `std` shim for the shadow crates: `pub use std::*` with a few modules overridden by
//! environment models.  The shadow crate does
//! `#![no_std] extern crate vstd_shim as std;` so that `use std::{fs, io, path, ..}` in the
//! *unmodified* repository files resolves here.
//!
//! Overridden:
//! * `fs`     – the model file system (inode table indexed by (file id, kind), step counter,
//!              crash / fault injection, C14 monitor).
//! * `io`     – `BufWriter` / `BufReader` are the REAL std types, instantiated with capacity
//!              `io::BUFCAP` instead of 8192 (a stated scaling bound; everything else is std).
//! * `path`   – (feature `model-path`) by-value inline `PathBuf` + unsized `Path` over bytes.
//! * `env`    – `current_dir`.
//! * `thread` – `Builder::spawn` records that a thread was requested and does not run it.
#![allow(static_mut_refs, clippy::all)]

pub use std::*;

// ================================================================================================
#[cfg(not(feature = "model-io"))]
pub mod io {
    pub use std::io::*;

    /// Capacity used for `BufWriter::new` / `BufReader::new` (std: 8192).
    pub const BUFCAP: usize = 8;

    /// `io::copy`: std's generic `stack_buffer_copy` (library/std/src/io/copy.rs) with the stack
    /// buffer scaled from 8192 to `BUFCAP` bytes and `Interrupted` retry kept.  (std additionally
    /// specialises for `BufWriter` destinations and for fd-to-fd copies; both produce the same
    /// byte stream.)
    pub fn copy<R: ?Sized + Read, W: ?Sized + Write>(reader: &mut R, writer: &mut W) -> Result<u64> {
        let mut buf = [0u8; BUFCAP];
        let mut len = 0u64;
        loop {
            let n = match reader.read(&mut buf) {
                Ok(0) => return Ok(len),
                Ok(n) => n,
                Err(ref e) if e.kind() == ErrorKind::Interrupted => continue,
                Err(e) => return Err(e),
            };
            writer.write_all(&buf[..n])?;
            len += n as u64;
        }
    }

    // NOTE on `UnsafeCell`: it hides the niches of the wrapped std type.  Kani lowers a
    // niche-encoded `Result<T, io::Error>` / `Option<T>` to a union whose discriminant is read
    // through a byte pointer, which CBMC does not constant-fold; a `?` on such a value then merges
    // the real payload with a reinterpretation of the other variant and every pointer inside
    // (buffer pointers) becomes symbolic (measured: symex diverges).  Without a niche rustc uses an
    // explicit tag, which folds.
    pub struct BufWriter<W: Write>(std::cell::UnsafeCell<std::io::BufWriter<W>>);
    impl<W: Write> BufWriter<W> {
        pub fn new(w: W) -> Self {
            Self(std::cell::UnsafeCell::new(std::io::BufWriter::with_capacity(BUFCAP, w)))
        }
        pub fn with_capacity(c: usize, w: W) -> Self {
            Self(std::cell::UnsafeCell::new(std::io::BufWriter::with_capacity(c, w)))
        }
        fn r(&self) -> &std::io::BufWriter<W> {
            unsafe { &*self.0.get() }
        }
        pub fn get_ref(&self) -> &W {
            self.r().get_ref()
        }
        pub fn get_mut(&mut self) -> &mut W {
            self.0.get_mut().get_mut()
        }
        pub fn buffer(&self) -> &[u8] {
            self.r().buffer()
        }
        pub fn capacity(&self) -> usize {
            self.r().capacity()
        }
    }
    impl<W: Write> Write for BufWriter<W> {
        fn write(&mut self, b: &[u8]) -> Result<usize> {
            self.0.get_mut().write(b)
        }
        fn write_all(&mut self, b: &[u8]) -> Result<()> {
            self.0.get_mut().write_all(b)
        }
        fn flush(&mut self) -> Result<()> {
            self.0.get_mut().flush()
        }
    }
    impl<W: Write + Seek> Seek for BufWriter<W> {
        fn seek(&mut self, p: SeekFrom) -> Result<u64> {
            self.0.get_mut().seek(p)
        }
    }
    impl<W: Write> std::fmt::Debug for BufWriter<W> {
        fn fmt(&self, f: &mut std::fmt::Formatter<'_>) -> std::fmt::Result {
            f.write_str("BufWriter")
        }
    }

    pub struct BufReader<R>(std::cell::UnsafeCell<std::io::BufReader<R>>);
    impl<R: Read> BufReader<R> {
        pub fn new(r: R) -> Self {
            Self(std::cell::UnsafeCell::new(std::io::BufReader::with_capacity(BUFCAP, r)))
        }
        pub fn with_capacity(c: usize, r: R) -> Self {
            Self(std::cell::UnsafeCell::new(std::io::BufReader::with_capacity(c, r)))
        }
        pub fn get_ref(&self) -> &R {
            unsafe { &*self.0.get() }.get_ref()
        }
    }
    impl<R: Read> Read for BufReader<R> {
        fn read(&mut self, b: &mut [u8]) -> Result<usize> {
            self.0.get_mut().read(b)
        }
        fn read_exact(&mut self, b: &mut [u8]) -> Result<()> {
            self.0.get_mut().read_exact(b)
        }
    }
    impl<R: Read + Seek> Seek for BufReader<R> {
        fn seek(&mut self, p: SeekFrom) -> Result<u64> {
            self.0.get_mut().seek(p)
        }
    }
    impl<R> std::fmt::Debug for BufReader<R> {
        fn fmt(&self, f: &mut std::fmt::Formatter<'_>) -> std::fmt::Result {
            f.write_str("BufReader")
        }
    }
}


/// (feature `model-io`) A self-contained `io`: `Error`, `ErrorKind`, `Read`, `Write`, `Seek`,
/// `SeekFrom`, `BufWriter`, `BufReader`, `copy` — transcriptions of the std items the repository
/// uses (std/src/io/{mod.rs,buffered/bufwriter.rs,buffered/bufreader.rs,copy.rs}), with
/// * buffers scaled from 8192 to `BUFCAP` bytes and held inline,
/// * an `Error` that is a plain `{kind}` value.
///
/// Why not the real `std::io`: `io::Error` is a bit-packed tagged pointer.  Kani lowers the
/// int<->pointer transmutes to byte reinterpretation, CBMC does not constant-fold them, and so
/// *every* `io::Result<()>` discriminant (`Ok(())` is the null pointer) and every `.kind()` is a
/// symbolic branch: each `?` forks, each end-of-file looks like "any error", and a scan loop never
/// terminates before the unwinding bound (measured; see DESIGN.md).  All types here are
/// deliberately free of niches (plain integers, no `bool`/enum fields) so that rustc gives
/// `Result<T, Error>` an explicit tag, which folds.
/// The real `std::io::{BufWriter,BufReader}` remain in use in `shadow-log`.
#[cfg(feature = "model-io")]
pub mod io {
    /// Capacity used for `BufWriter::new` / `BufReader::new` (std: 8192).
    pub const BUFCAP: usize = 8;

    pub type Result<T> = core::result::Result<T, Error>;

    /// `ErrorKind` as a niche-free newtype; the associated constants are usable as patterns.
    #[derive(Clone, Copy, PartialEq, Eq, Debug)]
    pub struct ErrorKind(pub u8);
    #[allow(non_upper_case_globals)]
    impl ErrorKind {
        pub const NotFound: ErrorKind = ErrorKind(0);
        pub const PermissionDenied: ErrorKind = ErrorKind(1);
        pub const AlreadyExists: ErrorKind = ErrorKind(12);
        pub const InvalidInput: ErrorKind = ErrorKind(20);
        pub const InvalidData: ErrorKind = ErrorKind(21);
        pub const WriteZero: ErrorKind = ErrorKind(23);
        pub const StorageFull: ErrorKind = ErrorKind(24);
        pub const Interrupted: ErrorKind = ErrorKind(35);
        pub const UnexpectedEof: ErrorKind = ErrorKind(37);
        pub const Other: ErrorKind = ErrorKind(39);
        pub const ConnectionReset: ErrorKind = ErrorKind(3);
    }

    pub struct Error {
        kind: u8,
    }
    impl Error {
        pub fn new<E>(kind: ErrorKind, _e: E) -> Error {
            Error { kind: kind.0 }
        }
        pub fn kind(&self) -> ErrorKind {
            ErrorKind(self.kind)
        }
        fn is_interrupted(&self) -> bool {
            self.kind == ErrorKind::Interrupted.0
        }
    }
    impl From<ErrorKind> for Error {
        fn from(k: ErrorKind) -> Error {
            Error { kind: k.0 }
        }
    }
    impl std::fmt::Debug for Error {
        fn fmt(&self, f: &mut std::fmt::Formatter<'_>) -> std::fmt::Result {
            f.write_str("io::Error")
        }
    }
    impl std::fmt::Display for Error {
        fn fmt(&self, f: &mut std::fmt::Formatter<'_>) -> std::fmt::Result {
            f.write_str("io::Error")
        }
    }
    impl std::error::Error for Error {}

    pub enum SeekFrom {
        Start(u64),
        End(i64),
        Current(i64),
    }

    pub trait Read {
        fn read(&mut self, buf: &mut [u8]) -> Result<usize>;
        /// std `default_read_exact`.
        fn read_exact(&mut self, mut buf: &mut [u8]) -> Result<()> {
            while !buf.is_empty() {
                match self.read(buf) {
                    Ok(0) => break,
                    Ok(n) => {
                        buf = &mut buf[n..];
                    }
                    Err(ref e) if e.is_interrupted() => {}
                    Err(e) => return Err(e),
                }
            }
            if !buf.is_empty() {
                Err(Error::from(ErrorKind::UnexpectedEof))
            } else {
                Ok(())
            }
        }
        fn by_ref(&mut self) -> &mut Self
        where
            Self: Sized,
        {
            self
        }
    }
    pub trait Write {
        fn write(&mut self, buf: &[u8]) -> Result<usize>;
        fn flush(&mut self) -> Result<()>;
        /// std `Write::write_all`.
        fn write_all(&mut self, mut buf: &[u8]) -> Result<()> {
            while !buf.is_empty() {
                match self.write(buf) {
                    Ok(0) => {
                        return Err(Error::from(ErrorKind::WriteZero));
                    }
                    Ok(n) => buf = &buf[n..],
                    Err(ref e) if e.is_interrupted() => {}
                    Err(e) => return Err(e),
                }
            }
            Ok(())
        }
        fn by_ref(&mut self) -> &mut Self
        where
            Self: Sized,
        {
            self
        }
    }
    pub trait Seek {
        fn seek(&mut self, pos: SeekFrom) -> Result<u64>;
    }

    impl<R: Read + ?Sized> Read for &mut R {
        fn read(&mut self, buf: &mut [u8]) -> Result<usize> {
            (**self).read(buf)
        }
        fn read_exact(&mut self, buf: &mut [u8]) -> Result<()> {
            (**self).read_exact(buf)
        }
    }
    impl<W: Write + ?Sized> Write for &mut W {
        fn write(&mut self, buf: &[u8]) -> Result<usize> {
            (**self).write(buf)
        }
        fn flush(&mut self) -> Result<()> {
            (**self).flush()
        }
        fn write_all(&mut self, buf: &[u8]) -> Result<()> {
            (**self).write_all(buf)
        }
    }
    impl<S: Seek + ?Sized> Seek for &mut S {
        fn seek(&mut self, pos: SeekFrom) -> Result<u64> {
            (**self).seek(pos)
        }
    }

    /// std `impl Read for &[u8]`, bytewise with a constant loop bound (keeps per-byte constants and
    /// keeps symex from unrolling to the unwinding bound when the slice length is symbolic).  A
    /// `read` returns at most `SRCAP` bytes per call, which the `Read` contract permits.
    pub const SRCAP: usize = 8;
    impl Read for &[u8] {
        fn read(&mut self, buf: &mut [u8]) -> Result<usize> {
            let mut amt = if buf.len() < self.len() { buf.len() } else { self.len() };
            if amt > SRCAP {
                amt = SRCAP;
            }
            let mut i = 0;
            while i < SRCAP {
                if i < amt {
                    buf[i] = self[i];
                }
                i += 1;
            }
            *self = &self[amt..];
            Ok(amt)
        }
    }

    /// std `io::copy` -> `generic_copy` -> `stack_buffer_copy`, buffer scaled to `BUFCAP`.
    pub fn copy<R: ?Sized + Read, W: ?Sized + Write>(reader: &mut R, writer: &mut W) -> Result<u64> {
        let mut buf = [0u8; BUFCAP];
        let mut len = 0u64;
        loop {
            let n = match reader.read(&mut buf) {
                Ok(0) => return Ok(len),
                Ok(n) => n,
                Err(ref e) if e.is_interrupted() => continue,
                Err(e) => return Err(e),
            };
            writer.write_all(&buf[..n])?;
            len += n as u64;
        }
    }

    // ---------------------------------------------------------------------------------------------
    /// Transcription of std `BufWriter` (std/src/io/buffered/bufwriter.rs).
    pub struct BufWriter<W: Write> {
        buf: [u8; BUFCAP],
        len: usize,
        /// std: `panicked: bool` (a `u8` here: no niche)
        panicked: u8,
        inner: W,
    }
    impl<W: Write> BufWriter<W> {
        pub fn new(inner: W) -> Self {
            BufWriter { buf: [0; BUFCAP], len: 0, panicked: 0, inner }
        }
        pub fn get_ref(&self) -> &W {
            &self.inner
        }
        pub fn get_mut(&mut self) -> &mut W {
            &mut self.inner
        }
        pub fn buffer(&self) -> &[u8] {
            &self.buf[..self.len]
        }
        pub fn capacity(&self) -> usize {
            BUFCAP
        }
        fn spare_capacity(&self) -> usize {
            BUFCAP - self.len
        }
        /// std `flush_buf` including `BufGuard`: whatever was written is removed from the front of
        /// the buffer on every exit, the rest stays buffered.
        fn flush_buf(&mut self) -> Result<()> {
            let mut written = 0usize;
            let mut ret: Result<()> = Ok(());
            while written < self.len {
                self.panicked = 1;
                let r = self.inner.write(&self.buf[written..self.len]);
                self.panicked = 0;
                match r {
                    Ok(0) => {
                        ret = Err(Error::from(ErrorKind::WriteZero));
                        break;
                    }
                    Ok(n) => written += n,
                    Err(ref e) if e.is_interrupted() => {}
                    Err(e) => {
                        ret = Err(e);
                        break;
                    }
                }
            }
            // BufGuard::drop: `buffer.drain(..written)`
            if written > 0 {
                let rest = self.len - written;
                let mut i = 0;
                while i < BUFCAP {
                    if i < rest {
                        self.buf[i] = self.buf[i + written];
                    }
                    i += 1;
                }
                self.len = rest;
            }
            ret
        }
        fn write_to_buffer_unchecked(&mut self, buf: &[u8]) {
            let old_len = self.len;
            let n = buf.len();
            let mut i = 0;
            while i < BUFCAP {
                if i < n {
                    self.buf[old_len + i] = buf[i];
                }
                i += 1;
            }
            self.len = old_len + n;
        }
        fn write_cold(&mut self, buf: &[u8]) -> Result<usize> {
            if buf.len() > self.spare_capacity() {
                self.flush_buf()?;
            }
            if buf.len() >= BUFCAP {
                self.panicked = 1;
                let r = self.inner.write(buf);
                self.panicked = 0;
                r
            } else {
                self.write_to_buffer_unchecked(buf);
                Ok(buf.len())
            }
        }
        fn write_all_cold(&mut self, buf: &[u8]) -> Result<()> {
            if buf.len() > self.spare_capacity() {
                self.flush_buf()?;
            }
            if buf.len() >= BUFCAP {
                self.panicked = 1;
                let r = self.inner.write_all(buf);
                self.panicked = 0;
                r
            } else {
                self.write_to_buffer_unchecked(buf);
                Ok(())
            }
        }
    }
    impl<W: Write> Write for BufWriter<W> {
        fn write(&mut self, buf: &[u8]) -> Result<usize> {
            if buf.len() < self.spare_capacity() {
                self.write_to_buffer_unchecked(buf);
                Ok(buf.len())
            } else {
                self.write_cold(buf)
            }
        }
        fn write_all(&mut self, buf: &[u8]) -> Result<()> {
            if buf.len() < self.spare_capacity() {
                self.write_to_buffer_unchecked(buf);
                Ok(())
            } else {
                self.write_all_cold(buf)
            }
        }
        fn flush(&mut self) -> Result<()> {
            self.flush_buf()?;
            self.inner.flush()
        }
    }
    impl<W: Write + Seek> Seek for BufWriter<W> {
        fn seek(&mut self, pos: SeekFrom) -> Result<u64> {
            self.flush_buf()?;
            self.inner.seek(pos)
        }
    }
    impl<W: Write> Drop for BufWriter<W> {
        fn drop(&mut self) {
            if self.panicked == 0 {
                // dtors should not panic, so we ignore a failed flush
                let _r = self.flush_buf();
            }
        }
    }
    impl<W: Write> std::fmt::Debug for BufWriter<W> {
        fn fmt(&self, f: &mut std::fmt::Formatter<'_>) -> std::fmt::Result {
            f.write_str("BufWriter")
        }
    }

    // ---------------------------------------------------------------------------------------------
    /// Transcription of std `BufReader` (std/src/io/buffered/bufreader.rs + bufreader/buffer.rs).
    pub struct BufReader<R> {
        buf: [u8; BUFCAP],
        pos: usize,
        filled: usize,
        inner: R,
    }
    impl<R: Read> BufReader<R> {
        pub fn new(inner: R) -> Self {
            BufReader { buf: [0; BUFCAP], pos: 0, filled: 0, inner }
        }
        pub fn get_ref(&self) -> &R {
            &self.inner
        }
        pub fn capacity(&self) -> usize {
            BUFCAP
        }
        fn discard_buffer(&mut self) {
            self.pos = 0;
            self.filled = 0;
        }
        fn fill_buf(&mut self) -> Result<()> {
            if self.pos >= self.filled {
                let result = self.inner.read(&mut self.buf[..]);
                self.pos = 0;
                match result {
                    Ok(n) => {
                        self.filled = n;
                    }
                    Err(e) => {
                        self.filled = 0;
                        return Err(e);
                    }
                }
            }
            Ok(())
        }
    }
    impl<R: Read> Read for BufReader<R> {
        fn read(&mut self, buf: &mut [u8]) -> Result<usize> {
            if self.pos == self.filled && buf.len() >= BUFCAP {
                self.discard_buffer();
                return self.inner.read(buf);
            }
            self.fill_buf()?;
            let avail = self.filled - self.pos;
            let nread = if buf.len() < avail { buf.len() } else { avail };
            let mut i = 0;
            while i < BUFCAP {
                if i < nread {
                    buf[i] = self.buf[self.pos + i];
                }
                i += 1;
            }
            // consume
            self.pos = if self.pos + nread < self.filled { self.pos + nread } else { self.filled };
            Ok(nread)
        }
        fn read_exact(&mut self, mut buf: &mut [u8]) -> Result<()> {
            // std: `consume_with` fast path
            let avail = self.filled - self.pos;
            if buf.len() <= avail {
                let n = buf.len();
                let mut i = 0;
                while i < BUFCAP {
                    if i < n {
                        buf[i] = self.buf[self.pos + i];
                    }
                    i += 1;
                }
                self.pos += n;
                return Ok(());
            }
            // default_read_exact
            while !buf.is_empty() {
                match self.read(buf) {
                    Ok(0) => break,
                    Ok(n) => {
                        buf = &mut buf[n..];
                    }
                    Err(ref e) if e.is_interrupted() => {}
                    Err(e) => return Err(e),
                }
            }
            if !buf.is_empty() {
                Err(Error::from(ErrorKind::UnexpectedEof))
            } else {
                Ok(())
            }
        }
    }
    impl<R: Read + Seek> Seek for BufReader<R> {
        fn seek(&mut self, pos: SeekFrom) -> Result<u64> {
            let result: u64;
            if let SeekFrom::Current(n) = pos {
                let remainder = (self.filled - self.pos) as i64;
                if let Some(offset) = n.checked_sub(remainder) {
                    result = self.inner.seek(SeekFrom::Current(offset))?;
                } else {
                    self.inner.seek(SeekFrom::Current(-remainder))?;
                    self.discard_buffer();
                    result = self.inner.seek(SeekFrom::Current(n))?;
                }
            } else {
                result = self.inner.seek(pos)?;
            }
            self.discard_buffer();
            Ok(result)
        }
    }
    impl<R> std::fmt::Debug for BufReader<R> {
        fn fmt(&self, f: &mut std::fmt::Formatter<'_>) -> std::fmt::Result {
            f.write_str("BufReader")
        }
    }
}

// ================================================================================================
/// `collections::BTreeSet` as a sorted fixed-capacity array (ordered-set semantics: ascending
/// iteration, no duplicates).  The real B-tree's node surgery (`bulk_push`,
/// `correct_childrens_parent_links`) does not terminate under CBMC within minutes even for two
/// concrete elements (measured).
pub mod collections {
    pub use std::collections::*;
    pub const SCAP: usize = 8;
    #[derive(Clone, Debug)]
    pub struct BTreeSet<T> {
        n: usize,
        v: [Option<T>; SCAP],
    }
    impl<T: Ord> BTreeSet<T> {
        pub fn new() -> Self {
            BTreeSet { n: 0, v: [None, None, None, None, None, None, None, None] }
        }
        pub fn len(&self) -> usize {
            self.n
        }
        pub fn is_empty(&self) -> bool {
            self.n == 0
        }
        pub fn contains(&self, x: &T) -> bool {
            let mut i = 0;
            while i < SCAP {
                if i < self.n {
                    if let Some(e) = &self.v[i] {
                        if e == x {
                            return true;
                        }
                    }
                }
                i += 1;
            }
            false
        }
        pub fn insert(&mut self, x: T) -> bool {
            if self.contains(&x) {
                return false;
            }
            assert!(self.n < SCAP, "model bound: set capacity");
            // position of the first element greater than x
            let mut pos = self.n;
            let mut i = 0;
            while i < SCAP {
                if i < self.n && pos == self.n {
                    if let Some(e) = &self.v[i] {
                        if *e > x {
                            pos = i;
                        }
                    }
                }
                i += 1;
            }
            // shift right
            let mut j = SCAP - 1;
            while j > 0 {
                if j > pos && j <= self.n {
                    self.v[j] = self.v[j - 1].take();
                }
                j -= 1;
            }
            self.v[pos] = Some(x);
            self.n += 1;
            true
        }
        pub fn iter(&self) -> SetIter<'_, T> {
            SetIter { s: self, i: 0, j: self.n }
        }
        pub fn first(&self) -> Option<&T> {
            if self.n == 0 {
                None
            } else {
                self.v[0].as_ref()
            }
        }
        pub fn last(&self) -> Option<&T> {
            if self.n == 0 {
                None
            } else {
                self.v[self.n - 1].as_ref()
            }
        }
    }
    impl<T: Ord> Default for BTreeSet<T> {
        fn default() -> Self {
            Self::new()
        }
    }
    pub struct SetIter<'a, T> {
        s: &'a BTreeSet<T>,
        i: usize,
        /// elements [i, j) are still to be yielded
        j: usize,
    }
    impl<'a, T> Iterator for SetIter<'a, T> {
        type Item = &'a T;
        fn next(&mut self) -> Option<&'a T> {
            if self.i < self.j {
                let r = self.s.v[self.i].as_ref();
                self.i += 1;
                r
            } else {
                None
            }
        }
    }
    impl<'a, T> DoubleEndedIterator for SetIter<'a, T> {
        fn next_back(&mut self) -> Option<&'a T> {
            if self.i < self.j {
                self.j -= 1;
                self.s.v[self.j].as_ref()
            } else {
                None
            }
        }
    }
    pub struct SetIntoIter<T> {
        s: BTreeSet<T>,
        i: usize,
    }
    impl<T> Iterator for SetIntoIter<T> {
        type Item = T;
        fn next(&mut self) -> Option<T> {
            if self.i < self.s.n {
                let r = self.s.v[self.i].take();
                self.i += 1;
                r
            } else {
                None
            }
        }
    }
    impl<T> IntoIterator for BTreeSet<T> {
        type Item = T;
        type IntoIter = SetIntoIter<T>;
        fn into_iter(self) -> SetIntoIter<T> {
            SetIntoIter { s: self, i: 0 }
        }
    }
    impl<'a, T: Ord> IntoIterator for &'a BTreeSet<T> {
        type Item = &'a T;
        type IntoIter = SetIter<'a, T>;
        fn into_iter(self) -> SetIter<'a, T> {
            self.iter()
        }
    }
    impl<T: Ord> FromIterator<T> for BTreeSet<T> {
        fn from_iter<I: IntoIterator<Item = T>>(it: I) -> Self {
            let mut s = BTreeSet::new();
            for x in it {
                s.insert(x);
            }
            s
        }
    }
}

// ================================================================================================
pub mod thread {
    pub use std::thread::*;
    /// Number of threads requested through `Builder::spawn` (never run).
    pub static mut SPAWNED: usize = 0;
    pub struct Builder;
    impl Builder {
        pub fn new() -> Self {
            Builder
        }
        pub fn name(self, _n: String) -> Self {
            self
        }
        pub fn spawn<F, T>(self, f: F) -> crate::io::Result<()>
        where
            F: FnOnce() -> T + Send + 'static,
            T: Send + 'static,
        {
            unsafe { SPAWNED += 1 };
            std::mem::forget(f);
            Ok(())
        }
    }
}

// ================================================================================================
/// (feature `model-path`) `ffi::OsStr` over bytes.  `to_str` accepts ASCII only and flags anything
/// else as outside the model: the real `OsStr::to_str` runs word-at-a-time UTF-8 validation whose
/// pointer-alignment case split makes CBMC unroll every loop to the bound even on constant input
/// (measured: a single concrete file name > 300 s).
#[cfg(feature = "model-path")]
pub mod ffi {
    pub use std::ffi::*;
    #[repr(transparent)]
    pub struct OsStr {
        inner: [u8],
    }
    impl OsStr {
        pub fn new<S: AsRef<OsStr> + ?Sized>(s: &S) -> &OsStr {
            s.as_ref()
        }
        pub fn __from_bytes(b: &[u8]) -> &OsStr {
            unsafe { &*(b as *const [u8] as *const OsStr) }
        }
        pub fn as_encoded_bytes(&self) -> &[u8] {
            &self.inner
        }
        pub fn len(&self) -> usize {
            self.inner.len()
        }
        pub fn to_str(&self) -> Option<&str> {
            let b = &self.inner;
            let mut i = 0;
            while i < crate::path::PCAP {
                if i < b.len() && b[i] >= 0x80 {
                    crate::fs::__fs().out_of_model = true;
                    return None;
                }
                i += 1;
            }
            Some(unsafe { std::str::from_utf8_unchecked(b) })
        }
    }
    impl AsRef<OsStr> for OsStr {
        fn as_ref(&self) -> &OsStr {
            self
        }
    }
    impl AsRef<OsStr> for str {
        fn as_ref(&self) -> &OsStr {
            OsStr::__from_bytes(self.as_bytes())
        }
    }
    impl AsRef<OsStr> for String {
        fn as_ref(&self) -> &OsStr {
            OsStr::__from_bytes(self.as_bytes())
        }
    }
    impl PartialEq for OsStr {
        fn eq(&self, o: &OsStr) -> bool {
            let a = &self.inner;
            let b = &o.inner;
            if a.len() != b.len() {
                return false;
            }
            let mut i = 0;
            while i < crate::path::PCAP {
                if i < a.len() && a[i] != b[i] {
                    return false;
                }
                i += 1;
            }
            true
        }
    }
    impl Eq for OsStr {}
    impl std::fmt::Debug for OsStr {
        fn fmt(&self, f: &mut std::fmt::Formatter<'_>) -> std::fmt::Result {
            f.write_str("OsStr")
        }
    }
}

#[cfg(feature = "model-path")]
pub mod env {
    pub use std::env::*;
    pub fn current_dir() -> crate::io::Result<crate::path::PathBuf> {
        Ok(crate::path::PathBuf::from("d"))
    }
}

// ================================================================================================
#[cfg(feature = "model-path")]
pub mod path {
    use crate::ffi::OsStr;

    /// Capacity of a path in bytes.
    pub const PCAP: usize = 18;

    #[repr(transparent)]
    pub struct Path {
        inner: [u8],
    }

    #[derive(Clone)]
    pub struct PathBuf {
        n: usize,
        d: [u8; PCAP],
    }

    impl Path {
        pub fn new<S: AsRef<Path> + ?Sized>(s: &S) -> &Path {
            s.as_ref()
        }
        pub fn __from_bytes(b: &[u8]) -> &Path {
            unsafe { &*(b as *const [u8] as *const Path) }
        }
        pub fn __bytes(&self) -> &[u8] {
            &self.inner
        }
        pub fn as_os_str(&self) -> &OsStr {
            OsStr::__from_bytes(&self.inner)
        }
        pub fn to_path_buf(&self) -> PathBuf {
            PathBuf::__from_bytes(&self.inner)
        }
        /// std: `self` + separator + `p` (an absolute `p` replaces `self`; the model only ever
        /// joins relative names and says so).
        pub fn join<P: AsRef<Path>>(&self, p: P) -> PathBuf {
            let tail = p.as_ref().__bytes();
            assert!(tail.is_empty() || tail[0] != b'/', "model bound: join with absolute path");
            let mut r = PathBuf::__from_bytes(&self.inner);
            if r.n > 0 && r.d[r.n - 1] != b'/' {
                r.__push_byte(b'/');
            }
            let mut i = 0;
            while i < PCAP {
                if i < tail.len() {
                    r.__push_byte(tail[i]);
                }
                i += 1;
            }
            r
        }
        /// Index of the first byte of the last component.
        fn name_start(&self) -> usize {
            let b = &self.inner;
            let mut start = 0;
            let mut i = 0;
            while i < PCAP {
                if i < b.len() && b[i] == b'/' {
                    start = i + 1;
                }
                i += 1;
            }
            start
        }
        pub fn file_name(&self) -> Option<&OsStr> {
            let s = self.name_start();
            if s >= self.inner.len() {
                return None;
            }
            Some(OsStr::__from_bytes(&self.inner[s..]))
        }
        /// Position of the last '.' of the file name, if it is not the name's first byte.
        fn last_dot(&self) -> Option<usize> {
            let b = &self.inner;
            let s = self.name_start();
            let mut dot = usize::MAX;
            let mut i = 0;
            while i < PCAP {
                if i > s && i < b.len() && b[i] == b'.' {
                    dot = i;
                }
                i += 1;
            }
            if dot == usize::MAX {
                None
            } else {
                Some(dot)
            }
        }
        pub fn extension(&self) -> Option<&OsStr> {
            let s = self.name_start();
            if s >= self.inner.len() {
                return None;
            }
            match self.last_dot() {
                Some(d) => Some(OsStr::__from_bytes(&self.inner[d + 1..])),
                None => None,
            }
        }
        pub fn file_stem(&self) -> Option<&OsStr> {
            let s = self.name_start();
            if s >= self.inner.len() {
                return None;
            }
            match self.last_dot() {
                Some(d) => Some(OsStr::__from_bytes(&self.inner[s..d])),
                None => Some(OsStr::__from_bytes(&self.inner[s..])),
            }
        }
        pub fn is_file(&self) -> bool {
            crate::fs::__is_file(self)
        }
    }

    impl PathBuf {
        pub fn new() -> Self {
            PathBuf { n: 0, d: [0; PCAP] }
        }
        pub fn __from_bytes(b: &[u8]) -> Self {
            assert!(b.len() <= PCAP, "model bound: path length");
            let mut r = PathBuf::new();
            let mut i = 0;
            while i < PCAP {
                if i < b.len() {
                    r.d[i] = b[i];
                }
                i += 1;
            }
            r.n = b.len();
            r
        }
        pub fn __push_byte(&mut self, b: u8) {
            assert!(self.n < PCAP, "model bound: path length");
            self.d[self.n] = b;
            self.n += 1;
        }
        pub fn as_path(&self) -> &Path {
            Path::__from_bytes(&self.d[..self.n])
        }
    }
    impl std::ops::Deref for PathBuf {
        type Target = Path;
        fn deref(&self) -> &Path {
            self.as_path()
        }
    }
    impl std::fmt::Debug for Path {
        fn fmt(&self, f: &mut std::fmt::Formatter<'_>) -> std::fmt::Result {
            f.write_str("Path")
        }
    }
    impl std::fmt::Debug for PathBuf {
        fn fmt(&self, f: &mut std::fmt::Formatter<'_>) -> std::fmt::Result {
            f.write_str("PathBuf")
        }
    }
    impl AsRef<Path> for Path {
        fn as_ref(&self) -> &Path {
            self
        }
    }
    impl AsRef<Path> for PathBuf {
        fn as_ref(&self) -> &Path {
            self.as_path()
        }
    }
    impl AsRef<Path> for str {
        fn as_ref(&self) -> &Path {
            Path::__from_bytes(self.as_bytes())
        }
    }
    impl AsRef<Path> for String {
        fn as_ref(&self) -> &Path {
            Path::__from_bytes(self.as_bytes())
        }
    }
    impl AsRef<Path> for OsStr {
        fn as_ref(&self) -> &Path {
            Path::__from_bytes(self.as_encoded_bytes())
        }
    }
    impl From<&str> for PathBuf {
        fn from(s: &str) -> Self {
            PathBuf::__from_bytes(s.as_bytes())
        }
    }
    impl From<String> for PathBuf {
        fn from(s: String) -> Self {
            PathBuf::__from_bytes(s.as_bytes())
        }
    }
    impl<'de> serde::Deserialize<'de> for PathBuf {
        fn deserialize<D: serde::Deserializer<'de>>(d: D) -> Result<Self, D::Error> {
            let s = <String as serde::Deserialize>::deserialize(d)?;
            Ok(PathBuf::from(s))
        }
    }
}

// ================================================================================================
/// The model file system.
///
/// * Inodes live in one static table indexed directly by `slot = id * 2 + kind`
///   (kind 0 = `<id>.bitcask.data`, 1 = `<id>.bitcask.hint`), so that addressing is
///   constant-foldable whenever the file id is concrete.
/// * Every call is one *step* of a global counter.  `crash_at`: before executing step number
///   `crash_at` a snapshot `(linked, len, synced)` per inode is taken (contents need no copy:
///   files are append-only, which the monitor enforces).  `fail_at`: step number `fail_at`
///   returns `Err` (or, for `fail_mode == 1` on a write of >= 2 bytes, a short write followed by
///   `Err` on the next write to that file).
/// * C14 monitor: flags any create that is not `create_new + append`, any write through a
///   handle that is not such a create, any rename / set_len / truncate / open-for-write, and any
///   created id that is not above every id of its kind the directory has ever contained.
pub mod fs {
    use crate::io::{self, Read, Seek, SeekFrom, Write};
    #[cfg(feature = "model-path")]
    use crate::path::{Path, PathBuf};
    #[cfg(not(feature = "model-path"))]
    use std::path::{Path, PathBuf};

    /// Number of distinct file ids.
    pub const NID: usize = 8;
    pub const NSLOT: usize = NID * 2;
    /// Capacity of one file in bytes.
    pub const FCAP: usize = 32;
    /// Maximum number of bytes in one write call.
    pub const WCAP: usize = 12;
    /// Maximum number of bytes returned by one read call.
    pub const RCAP: usize = 8;
    /// Maximum length of a path handed to the model.
    pub const NAMECAP: usize = 18;
    /// Directory-listing entries that are not store files (byte-level names).
    pub const NFOREIGN: usize = 3;

    pub const K_OPEN: u8 = 1;
    pub const K_CREATE: u8 = 2;
    pub const K_WRITE: u8 = 3;
    pub const K_READ: u8 = 4;
    pub const K_FSYNC: u8 = 5;
    pub const K_UNLINK: u8 = 6;
    pub const K_STAT: u8 = 7;
    pub const K_READDIR: u8 = 8;
    pub const K_MMAP: u8 = 9;

    #[derive(Clone, Copy)]
    pub struct Inode {
        /// a file with this name was created at some point
        pub ever: bool,
        /// the name is currently in the directory
        pub linked: bool,
        pub len: usize,
        /// length at the last completed `sync_all`
        pub synced: usize,
        /// created by the process under verification (not laid out by a harness prelude)
        pub born: bool,
    }
    pub const EMPTY_INODE: Inode = Inode { ever: false, linked: false, len: 0, synced: 0, born: false };

    /// File contents, kept in a static of their own: a read at a symbolic (slot, offset) is a mux
    /// over the whole object it points into, so that object holds nothing but the bytes.
    pub static mut DATA: [[u8; FCAP]; NSLOT] = [[0; FCAP]; NSLOT];
    pub fn __data() -> &'static mut [[u8; FCAP]; NSLOT] {
        unsafe { &mut DATA }
    }

    #[derive(Clone, Copy)]
    pub struct Foreign {
        pub used: bool,
        pub is_file: bool,
        pub n: usize,
        pub name: [u8; NAMECAP],
    }
    pub const EMPTY_FOREIGN: Foreign = Foreign { used: false, is_file: true, n: 0, name: [0; NAMECAP] };

    pub struct FsState {
        pub inodes: [Inode; NSLOT],
        pub foreign: [Foreign; NFOREIGN],
        /// number of calls executed so far
        pub steps: usize,
        // ---- controls (set by the harness, possibly symbolic)
        pub crash_at: usize,
        pub fail_at: usize,
        pub fail_mode: u8,
        pub short_len: usize,
        /// listing order of `read_dir` starts at this slot
        pub rotation: usize,
        // ---- observations
        pub snap_taken: bool,
        pub snap_linked: [bool; NSLOT],
        pub snap_len: [usize; NSLOT],
        pub snap_synced: [usize; NSLOT],
        pub crash_kind: u8,
        pub crash_slot: usize,
        pub fail_hit: bool,
        pub fail_kind: u8,
        pub fail_slot: usize,
        pub fail_next_write_slot: usize,
        /// C14 monitor verdict
        pub c14_violation: bool,
        /// which rule was broken (1 create flags, 2 write through foreign handle / not at EOF,
        /// 3 rename/set_len/truncate/open-for-write, 4 id not above every earlier id)
        pub c14_rule: u8,
        /// the model was used outside what it represents faithfully (must stay false)
        pub out_of_model: bool,
        pub max_data_id: usize,
        pub max_hint_id: usize,
        pub any_data: bool,
        pub any_hint: bool,
        pub n_fsync: usize,
        pub n_write: usize,
        /// C04: before executing step number `probe_at` the hook (a reader-side probe) runs once
        pub probe_at: usize,
        pub probe: Option<fn()>,
    }

    pub static mut FS: FsState = FsState {
        inodes: [EMPTY_INODE; NSLOT],
        foreign: [EMPTY_FOREIGN; NFOREIGN],
        steps: 0,
        crash_at: usize::MAX,
        fail_at: usize::MAX,
        fail_mode: 0,
        short_len: 0,
        rotation: 0,
        snap_taken: false,
        snap_linked: [false; NSLOT],
        snap_len: [0; NSLOT],
        snap_synced: [0; NSLOT],
        crash_kind: 0,
        crash_slot: 0,
        fail_hit: false,
        fail_kind: 0,
        fail_slot: 0,
        fail_next_write_slot: usize::MAX,
        c14_violation: false,
        c14_rule: 0,
        out_of_model: false,
        max_data_id: 0,
        max_hint_id: 0,
        any_data: false,
        any_hint: false,
        n_fsync: 0,
        n_write: 0,
        probe_at: usize::MAX,
        probe: None,
    };

    pub fn __fs() -> &'static mut FsState {
        unsafe { &mut FS }
    }

    #[cfg(feature = "model-path")]
    fn pbytes(p: &Path) -> &[u8] {
        p.__bytes()
    }
    #[cfg(not(feature = "model-path"))]
    fn pbytes(p: &Path) -> &[u8] {
        p.as_os_str().as_encoded_bytes()
    }

    /// Take the crash snapshot now (also called by harnesses for "crash after the last call").
    pub fn __snapshot() {
        let fs = __fs();
        let mut i = 0;
        while i < NSLOT {
            fs.snap_linked[i] = fs.inodes[i].linked;
            fs.snap_len[i] = fs.inodes[i].len;
            fs.snap_synced[i] = fs.inodes[i].synced;
            i += 1;
        }
        fs.snap_taken = true;
    }

    /// Replace the directory by the crash snapshot (process-kill model: page cache survives).
    pub fn __install_snapshot() {
        let fs = __fs();
        let mut i = 0;
        while i < NSLOT {
            fs.inodes[i].linked = fs.snap_linked[i];
            fs.inodes[i].len = fs.snap_len[i];
            fs.inodes[i].synced = fs.snap_synced[i];
            i += 1;
        }
    }

    fn c14(rule: u8) {
        let fs = __fs();
        if !fs.c14_violation {
            fs.c14_violation = true;
            fs.c14_rule = rule;
        }
    }

    /// One step.  Returns `Err` if this is the step chosen to fail.
    fn tick(kind: u8, slot: usize) -> io::Result<()> {
        let fs = __fs();
        let s = fs.steps;
        if s == fs.probe_at {
            // the probe's own file-system calls are steps too; run it once
            fs.probe_at = usize::MAX;
            if let Some(p) = fs.probe {
                p();
            }
        }
        let fs = __fs();
        let s = fs.steps;
        fs.steps = s + 1;
        if s == fs.crash_at {
            __snapshot();
            let fs = __fs();
            fs.crash_kind = kind;
            fs.crash_slot = slot;
        }
        let fs = __fs();
        if s == fs.fail_at && !(fs.fail_mode == 1 && kind == K_WRITE) {
            fs.fail_hit = true;
            fs.fail_kind = kind;
            fs.fail_slot = slot;
            return Err(io::Error::from(io::ErrorKind::Other));
        }
        Ok(())
    }

    /// `dir/<id>.bitcask.{data,hint}` -> slot.  `None`: not a store-file name.
    pub fn __parse(b: &[u8]) -> Option<usize> {
        let n = b.len();
        assert!(n <= NAMECAP, "model bound: path length");
        let mut start = 0;
        let mut i = 0;
        while i < NAMECAP {
            if i < n && b[i] == b'/' {
                start = i + 1;
            }
            i += 1;
        }
        // decimal id: 1 or 2 digits, no superfluous leading zero
        if start >= n || !b[start].is_ascii_digit() {
            return None;
        }
        let mut id = (b[start] - b'0') as usize;
        let mut j = start + 1;
        if j < n && b[j].is_ascii_digit() {
            if id == 0 {
                return None;
            }
            id = id * 10 + (b[j] - b'0') as usize;
            j += 1;
        }
        if j < n && b[j].is_ascii_digit() {
            return None;
        }
        const MID: [u8; 9] = *b".bitcask.";
        if n != j + 9 + 4 {
            return None;
        }
        let mut k = 0;
        while k < 9 {
            if b[j + k] != MID[k] {
                return None;
            }
            k += 1;
        }
        let e = j + 9;
        let kind = if b[e] == b'd' && b[e + 1] == b'a' && b[e + 2] == b't' && b[e + 3] == b'a' {
            0
        } else if b[e] == b'h' && b[e + 1] == b'i' && b[e + 2] == b'n' && b[e + 3] == b't' {
            1
        } else {
            return None;
        };
        if id >= NID {
            // a store file beyond the table: the model cannot represent it
            __fs().out_of_model = true;
            return None;
        }
        Some(id * 2 + kind)
    }

    fn find_foreign(b: &[u8]) -> usize {
        let fs = __fs();
        // compare only the last component
        let n = b.len();
        let mut start = 0;
        let mut i = 0;
        while i < NAMECAP {
            if i < n && b[i] == b'/' {
                start = i + 1;
            }
            i += 1;
        }
        let mut r = NFOREIGN;
        let mut f = 0;
        while f < NFOREIGN {
            let e = &fs.foreign[f];
            if r == NFOREIGN && e.used && e.n == n - start {
                let mut eq = true;
                let mut j = 0;
                while j < NAMECAP {
                    if j < e.n && e.name[j] != b[start + j] {
                        eq = false;
                    }
                    j += 1;
                }
                if eq {
                    r = f;
                }
            }
            f += 1;
        }
        r
    }

    /// How a handle was opened: plain `u8` constants, NOT `bool`s or an enum, so that `File`
    /// offers no niche (see the note on `UnsafeCell` in `io`).
    pub const M_READ: u8 = 0;
    /// opened with `append` on an existing file (never done by the store: C14)
    pub const M_APPEND: u8 = 1;
    /// obtained from `create_new + append` in this process
    pub const M_CREATOR: u8 = 2;
    pub const M_OTHER: u8 = 3;
    #[derive(Debug)]
    pub struct File {
        pub slot: usize,
        pub pos: usize,
        pub mode: u8,
    }

    #[derive(Clone)]
    pub struct OpenOptions {
        read: bool,
        append: bool,
        create_new: bool,
        write: bool,
        truncate: bool,
        create: bool,
    }

    impl OpenOptions {
        pub fn new() -> Self {
            OpenOptions { read: false, append: false, create_new: false, write: false, truncate: false, create: false }
        }
        pub fn read(&mut self, b: bool) -> &mut Self {
            self.read = b;
            self
        }
        pub fn append(&mut self, b: bool) -> &mut Self {
            self.append = b;
            self
        }
        pub fn create_new(&mut self, b: bool) -> &mut Self {
            self.create_new = b;
            self
        }
        pub fn write(&mut self, b: bool) -> &mut Self {
            self.write = b;
            self
        }
        pub fn truncate(&mut self, b: bool) -> &mut Self {
            self.truncate = b;
            self
        }
        pub fn create(&mut self, b: bool) -> &mut Self {
            self.create = b;
            self
        }
        pub fn open<P: AsRef<Path>>(&self, p: P) -> io::Result<File> {
            let b = pbytes(p.as_ref());
            let slot = match __parse(b) {
                Some(s) => s,
                None => {
                    // foreign names can be listed but not opened by the store
                    __fs().out_of_model = true;
                    return Err(io::Error::from(io::ErrorKind::NotFound));
                }
            };
            let creating = self.create_new || self.create;
            tick(if creating { K_CREATE } else { K_OPEN }, slot)?;
            let fs = __fs();
            if self.write || self.truncate || self.create {
                c14(3);
                fs.out_of_model = true;
            }
            if fs.inodes[slot].linked {
                if self.create_new {
                    return Err(io::Error::from(io::ErrorKind::AlreadyExists));
                }
                if self.append || self.write {
                    // re-opening an existing file for writing
                    c14(3);
                }
                let mode = if self.append { M_APPEND } else if self.read { M_READ } else { M_OTHER };
                return Ok(File { slot, pos: 0, mode });
            }
            if !creating {
                return Err(io::Error::from(io::ErrorKind::NotFound));
            }
            if !(self.create_new && self.append) {
                c14(1);
            }
            let id = slot / 2;
            if slot % 2 == 0 {
                if fs.any_data && id <= fs.max_data_id {
                    c14(4);
                }
                // ids are handed out by looking at data files only, and recovery prefers a hint
                // file over the data file of the same id: a data file must be the FIRST file of
                // its id (its hint file follows it), i.e. also above every hint id ever present
                if fs.any_hint && id <= fs.max_hint_id {
                    c14(4);
                }
                if !fs.any_data || id > fs.max_data_id {
                    fs.max_data_id = id;
                }
                fs.any_data = true;
            } else {
                if fs.any_hint && id <= fs.max_hint_id {
                    c14(4);
                }
                if !fs.any_hint || id > fs.max_hint_id {
                    fs.max_hint_id = id;
                }
                fs.any_hint = true;
            }
            let ino = &mut fs.inodes[slot];
            if ino.ever {
                // the name is being reused while the unlinked inode may still be open or mapped:
                // the table cannot represent two inodes for one name
                fs.out_of_model = true;
            }
            ino.ever = true;
            ino.linked = true;
            ino.len = 0;
            ino.synced = 0;
            ino.born = true;
            let mode = if self.append { M_CREATOR } else if self.read { M_READ } else { M_OTHER };
            Ok(File { slot, pos: 0, mode })
        }
    }

    impl File {
        pub fn open<P: AsRef<Path>>(p: P) -> io::Result<File> {
            OpenOptions::new().read(true).open(p)
        }
        pub fn create<P: AsRef<Path>>(p: P) -> io::Result<File> {
            OpenOptions::new().write(true).create(true).truncate(true).open(p)
        }
        pub fn sync_all(&self) -> io::Result<()> {
            tick(K_FSYNC, self.slot)?;
            let fs = __fs();
            fs.n_fsync += 1;
            let s = &mut fs.inodes[self.slot];
            s.synced = s.len;
            Ok(())
        }
        pub fn sync_data(&self) -> io::Result<()> {
            self.sync_all()
        }
        pub fn set_len(&self, _n: u64) -> io::Result<()> {
            c14(3);
            __fs().out_of_model = true;
            Ok(())
        }
        pub fn metadata(&self) -> io::Result<Metadata> {
            tick(K_STAT, self.slot)?;
            Ok(Metadata { len: __fs().inodes[self.slot].len as u64 })
        }
    }

    impl Write for File {
        fn write(&mut self, b: &[u8]) -> io::Result<usize> {
            let fs = __fs();
            let st = fs.steps;
            tick(K_WRITE, self.slot)?;
            let fs = __fs();
            if self.slot == fs.fail_next_write_slot {
                fs.fail_next_write_slot = usize::MAX;
                fs.fail_hit = true;
                fs.fail_kind = K_WRITE;
                fs.fail_slot = self.slot;
                return Err(io::Error::from(io::ErrorKind::Other));
            }
            if self.mode != M_CREATOR {
                c14(2);
            }
            let mut n = b.len();
            assert!(n <= WCAP, "model bound: bytes per write call");
            if st == fs.fail_at && fs.fail_mode == 1 {
                if n >= 2 {
                    // short write: a non-empty strict prefix is written, the rest fails next
                    let p = fs.short_len;
                    if p >= 1 && p < n {
                        n = p;
                    } else {
                        n = 1;
                    }
                    fs.fail_next_write_slot = self.slot;
                } else {
                    fs.fail_hit = true;
                    fs.fail_kind = K_WRITE;
                    fs.fail_slot = self.slot;
                    return Err(io::Error::from(io::ErrorKind::Other));
                }
            }
            let s = &mut fs.inodes[self.slot];
            let data = &mut __data()[self.slot];
            assert!(s.len + n <= FCAP, "model bound: file capacity");
            // bytewise with a tight constant bound: keeps per-byte constants (a memcpy makes CBMC
            // treat the whole destination as symbolic as soon as one source byte is)
            let base = s.len;
            let mut i = 0;
            while i < WCAP {
                if i < n {
                    data[base + i] = b[i];
                }
                i += 1;
            }
            s.len = base + n;
            self.pos = s.len;
            fs.n_write += 1;
            Ok(n)
        }
        fn flush(&mut self) -> io::Result<()> {
            Ok(())
        }
    }

    impl Read for File {
        fn read(&mut self, b: &mut [u8]) -> io::Result<usize> {
            tick(K_READ, self.slot)?;
            let fs = __fs();
            if self.mode != M_READ {
                fs.out_of_model = true;
            }
            let s = &fs.inodes[self.slot];
            let data = &__data()[self.slot];
            let pos = self.pos;
            let mut n = if pos >= s.len { 0 } else { s.len - pos };
            if n > b.len() {
                n = b.len();
            }
            // a read may legally return fewer bytes than asked for: at most RCAP per call
            if n > RCAP {
                n = RCAP;
            }
            let mut i = 0;
            while i < RCAP {
                if i < n {
                    b[i] = data[pos + i];
                }
                i += 1;
            }
            self.pos = pos + n;
            Ok(n)
        }
    }

    impl Seek for File {
        fn seek(&mut self, p: SeekFrom) -> io::Result<u64> {
            let len = __fs().inodes[self.slot].len;
            match p {
                SeekFrom::Start(n) => self.pos = n as usize,
                SeekFrom::End(d) => self.pos = (len as i64 + d) as usize,
                SeekFrom::Current(d) => self.pos = (self.pos as i64 + d) as usize,
            }
            Ok(self.pos as u64)
        }
    }

    pub struct Metadata {
        len: u64,
    }
    impl Metadata {
        pub fn len(&self) -> u64 {
            self.len
        }
        pub fn is_file(&self) -> bool {
            true
        }
    }

    pub fn metadata<P: AsRef<Path>>(p: P) -> io::Result<Metadata> {
        let b = pbytes(p.as_ref());
        match __parse(b) {
            Some(slot) => {
                tick(K_STAT, slot)?;
                let s = &__fs().inodes[slot];
                if s.linked {
                    Ok(Metadata { len: s.len as u64 })
                } else {
                    Err(io::Error::from(io::ErrorKind::NotFound))
                }
            }
            None => {
                tick(K_STAT, NSLOT)?;
                Err(io::Error::from(io::ErrorKind::NotFound))
            }
        }
    }

    pub fn remove_file<P: AsRef<Path>>(p: P) -> io::Result<()> {
        let b = pbytes(p.as_ref());
        match __parse(b) {
            Some(slot) => {
                tick(K_UNLINK, slot)?;
                let s = &mut __fs().inodes[slot];
                if s.linked {
                    s.linked = false;
                    Ok(())
                } else {
                    Err(io::Error::from(io::ErrorKind::NotFound))
                }
            }
            None => {
                tick(K_UNLINK, NSLOT)?;
                __fs().out_of_model = true;
                Err(io::Error::from(io::ErrorKind::NotFound))
            }
        }
    }

    pub fn rename<P: AsRef<Path>, Q: AsRef<Path>>(_a: P, _b: Q) -> io::Result<()> {
        c14(3);
        __fs().out_of_model = true;
        Ok(())
    }

    pub fn create_dir_all<P: AsRef<Path>>(_p: P) -> io::Result<()> {
        Ok(())
    }

    pub struct DirEntry {
        p: PathBuf,
    }
    impl DirEntry {
        pub fn path(&self) -> PathBuf {
            self.p.clone()
        }
    }

    pub struct ReadDir {
        /// number of table positions visited so far (store slots, then foreign entries)
        i: usize,
        rot: usize,
        dir: [u8; NAMECAP],
        dirn: usize,
    }

    fn render(dir: &[u8], dirn: usize, name: &[u8]) -> PathBuf {
        let mut v = [0u8; NAMECAP];
        let mut n = 0;
        let mut i = 0;
        while i < NAMECAP {
            if i < dirn {
                v[n] = dir[i];
                n += 1;
            }
            i += 1;
        }
        if n > 0 && v[n - 1] != b'/' {
            v[n] = b'/';
            n += 1;
        }
        assert!(n + name.len() <= NAMECAP, "model bound: path length");
        let mut i = 0;
        while i < NAMECAP {
            if i < name.len() {
                v[n] = name[i];
                n += 1;
            }
            i += 1;
        }
        mk_pathbuf(&v[..n])
    }
    #[cfg(feature = "model-path")]
    fn mk_pathbuf(b: &[u8]) -> PathBuf {
        PathBuf::__from_bytes(b)
    }
    #[cfg(not(feature = "model-path"))]
    fn mk_pathbuf(b: &[u8]) -> PathBuf {
        PathBuf::from(unsafe { std::str::from_utf8_unchecked(b) })
    }

    /// File name of a slot: `<id>.bitcask.{data,hint}`; returns (bytes, len).
    pub fn __slot_name(slot: usize) -> ([u8; 16], usize) {
        let id = slot / 2;
        let mut v = [0u8; 16];
        let mut n = 0;
        if id >= 10 {
            v[n] = b'0' + (id / 10) as u8;
            n += 1;
        }
        v[n] = b'0' + (id % 10) as u8;
        n += 1;
        const MID: [u8; 9] = *b".bitcask.";
        let mut k = 0;
        while k < 9 {
            v[n] = MID[k];
            n += 1;
            k += 1;
        }
        let ext: [u8; 4] = if slot % 2 == 0 { *b"data" } else { *b"hint" };
        let mut k = 0;
        while k < 4 {
            v[n] = ext[k];
            n += 1;
            k += 1;
        }
        (v, n)
    }

    impl Iterator for ReadDir {
        type Item = io::Result<DirEntry>;
        fn next(&mut self) -> Option<Self::Item> {
            let fs = __fs();
            while self.i < NSLOT + NFOREIGN {
                let k = self.i;
                self.i += 1;
                if k < NSLOT {
                    let mut slot = k + self.rot;
                    if slot >= NSLOT {
                        slot -= NSLOT;
                    }
                    if fs.inodes[slot].linked {
                        let (nm, nn) = __slot_name(slot);
                        return Some(Ok(DirEntry { p: render(&self.dir, self.dirn, &nm[..nn]) }));
                    }
                } else {
                    let f = &fs.foreign[k - NSLOT];
                    if f.used {
                        return Some(Ok(DirEntry { p: render(&self.dir, self.dirn, &f.name[..f.n]) }));
                    }
                }
            }
            None
        }
    }

    pub fn read_dir<P: AsRef<Path>>(p: P) -> io::Result<ReadDir> {
        tick(K_READDIR, NSLOT)?;
        let b = pbytes(p.as_ref());
        assert!(b.len() <= NAMECAP, "model bound: path length");
        let mut dir = [0u8; NAMECAP];
        let mut i = 0;
        while i < NAMECAP {
            if i < b.len() {
                dir[i] = b[i];
            }
            i += 1;
        }
        let rot = __fs().rotation;
        assert!(rot < NSLOT);
        Ok(ReadDir { i: 0, rot, dir, dirn: b.len() })
    }

    /// Harness prelude: declare that store file `slot` exists in the directory before the
    /// process under verification starts (contents are laid out directly by the harness).
    pub fn __preexisting(slot: usize) {
        let fs = __fs();
        let ino = &mut fs.inodes[slot];
        ino.ever = true;
        ino.linked = true;
        let id = slot / 2;
        if slot % 2 == 0 {
            if !fs.any_data || id > fs.max_data_id {
                fs.max_data_id = id;
            }
            fs.any_data = true;
        } else {
            if !fs.any_hint || id > fs.max_hint_id {
                fs.max_hint_id = id;
            }
            fs.any_hint = true;
        }
    }

    /// `Path::is_file` of the model path / stub target for the real `Path::is_file`.
    pub fn __is_file(p: &Path) -> bool {
        let b = pbytes(p);
        match __parse(b) {
            Some(slot) => __fs().inodes[slot].linked,
            None => {
                let f = find_foreign(b);
                f < NFOREIGN && __fs().foreign[f].is_file
            }
        }
    }

    pub fn __mmap_snapshot(f: &File) -> io::Result<(usize, usize)> {
        tick(K_MMAP, f.slot)?;
        Ok((f.slot, __fs().inodes[f.slot].len))
    }
    pub fn __mmap_slice(slot: usize, len: usize) -> &'static [u8] {
        &__data()[slot][..len]
    }
}
