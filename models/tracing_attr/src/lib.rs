use proc_macro::TokenStream;
#[proc_macro_attribute]
pub fn instrument(_attr: TokenStream, item: TokenStream) -> TokenStream { item }
