//! Environment model of the `bytes` crate (1.0.1) as used by letung3105/bitcask.
//!
//! `Bytes` / `BytesMut` are fixed-capacity inline arrays (no vtables, no heap), because the real
//! tagged-pointer representation is intractable for CBMC (measured: 158 s for clone+eq+drop of one
//! byte).  `Buf for Cursor<T>` is a line-by-line transcription of bytes-1.0.1
//! `src/buf/buf_impl.rs` **including its panics**.  Exceeding a capacity is a
//! `model bound:` assertion, never silent truncation.
use std::ops::{Deref, DerefMut};

/// Capacity of a `Bytes` value.
pub const BCAP: usize = 8;
/// Capacity of a `BytesMut` value.
pub const MCAP: usize = 32;

#[derive(Clone)]
pub struct Bytes {
    n: usize,
    d: [u8; BCAP],
}

impl Default for Bytes {
    fn default() -> Self {
        Bytes { n: 0, d: [0; BCAP] }
    }
}

impl PartialEq for Bytes {
    fn eq(&self, o: &Bytes) -> bool {
        if self.n != o.n {
            return false;
        }
        let mut i = 0;
        while i < BCAP {
            if i < self.n && self.d[i] != o.d[i] {
                return false;
            }
            i += 1;
        }
        true
    }
}
impl Eq for Bytes {}

fn eq_slice(a: &Bytes, s: &[u8]) -> bool {
    if a.n != s.len() {
        return false;
    }
    let mut i = 0;
    while i < BCAP {
        if i < a.n && a.d[i] != s[i] {
            return false;
        }
        i += 1;
    }
    true
}

impl PartialEq<[u8]> for Bytes {
    fn eq(&self, o: &[u8]) -> bool {
        eq_slice(self, o)
    }
}
impl PartialEq<Bytes> for [u8] {
    fn eq(&self, o: &Bytes) -> bool {
        eq_slice(o, self)
    }
}
impl PartialEq<str> for Bytes {
    fn eq(&self, o: &str) -> bool {
        eq_slice(self, o.as_bytes())
    }
}
impl PartialEq<Bytes> for str {
    fn eq(&self, o: &Bytes) -> bool {
        eq_slice(o, self.as_bytes())
    }
}
impl PartialEq<Vec<u8>> for Bytes {
    fn eq(&self, o: &Vec<u8>) -> bool {
        eq_slice(self, &o[..])
    }
}
impl PartialEq<Bytes> for Vec<u8> {
    fn eq(&self, o: &Bytes) -> bool {
        eq_slice(o, &self[..])
    }
}
impl PartialEq<String> for Bytes {
    fn eq(&self, o: &String) -> bool {
        eq_slice(self, o.as_bytes())
    }
}
impl PartialEq<Bytes> for String {
    fn eq(&self, o: &Bytes) -> bool {
        eq_slice(o, self.as_bytes())
    }
}
impl PartialEq<Bytes> for &[u8] {
    fn eq(&self, o: &Bytes) -> bool {
        eq_slice(o, self)
    }
}
impl PartialEq<Bytes> for &str {
    fn eq(&self, o: &Bytes) -> bool {
        eq_slice(o, self.as_bytes())
    }
}
impl<'a, T: ?Sized> PartialEq<&'a T> for Bytes
where
    Bytes: PartialEq<T>,
{
    fn eq(&self, o: &&'a T) -> bool {
        *self == **o
    }
}

impl std::hash::Hash for Bytes {
    fn hash<H: std::hash::Hasher>(&self, h: &mut H) {
        self.deref().hash(h)
    }
}
impl std::fmt::Debug for Bytes {
    fn fmt(&self, f: &mut std::fmt::Formatter<'_>) -> std::fmt::Result {
        f.write_str("Bytes")
    }
}

impl Bytes {
    pub const fn new() -> Self {
        Bytes { n: 0, d: [0; BCAP] }
    }
    pub fn len(&self) -> usize {
        self.n
    }
    pub fn is_empty(&self) -> bool {
        self.n == 0
    }
    pub fn copy_from_slice(s: &[u8]) -> Self {
        assert!(s.len() <= BCAP, "model bound: Bytes capacity");
        let mut b = Self::default();
        b.n = s.len();
        let mut i = 0;
        while i < BCAP {
            if i < s.len() {
                b.d[i] = s[i];
            }
            i += 1;
        }
        b
    }
    /// Model-only constructor: avoids any heap traffic in harness preludes.
    pub fn __from_array(d: [u8; BCAP], n: usize) -> Self {
        assert!(n <= BCAP, "model bound: Bytes capacity");
        Bytes { n, d }
    }
    pub fn __byte(&self, i: usize) -> u8 {
        self.d[i]
    }
}

impl Deref for Bytes {
    type Target = [u8];
    fn deref(&self) -> &[u8] {
        &self.d[..self.n]
    }
}
impl AsRef<[u8]> for Bytes {
    fn as_ref(&self) -> &[u8] {
        self.deref()
    }
}
impl std::borrow::Borrow<[u8]> for Bytes {
    fn borrow(&self) -> &[u8] {
        self.deref()
    }
}
impl From<Vec<u8>> for Bytes {
    fn from(v: Vec<u8>) -> Self {
        Self::copy_from_slice(&v)
    }
}
impl From<String> for Bytes {
    fn from(v: String) -> Self {
        Self::copy_from_slice(v.as_bytes())
    }
}
impl From<&'static str> for Bytes {
    fn from(v: &'static str) -> Self {
        Self::copy_from_slice(v.as_bytes())
    }
}
impl From<&'static [u8]> for Bytes {
    fn from(v: &'static [u8]) -> Self {
        Self::copy_from_slice(v)
    }
}

impl serde::Serialize for Bytes {
    fn serialize<S: serde::Serializer>(&self, s: S) -> Result<S::Ok, S::Error> {
        s.serialize_bytes(self.deref())
    }
}
impl<'de> serde::Deserialize<'de> for Bytes {
    fn deserialize<D: serde::Deserializer<'de>>(d: D) -> Result<Self, D::Error> {
        struct V;
        impl<'de> serde::de::Visitor<'de> for V {
            type Value = Bytes;
            fn expecting(&self, f: &mut std::fmt::Formatter<'_>) -> std::fmt::Result {
                f.write_str("byte array")
            }
            fn visit_bytes<E: serde::de::Error>(self, v: &[u8]) -> Result<Bytes, E> {
                Ok(Bytes::copy_from_slice(v))
            }
            fn visit_byte_buf<E: serde::de::Error>(self, v: Vec<u8>) -> Result<Bytes, E> {
                Ok(Bytes::copy_from_slice(&v))
            }
        }
        d.deserialize_byte_buf(V)
    }
}

// ------------------------------------------------------------------------------------------------
// BytesMut: only what net/connection.rs needs to type-check (unreached by the claimed harnesses).

pub struct BytesMut {
    n: usize,
    d: [u8; MCAP],
}
impl BytesMut {
    pub fn with_capacity(_c: usize) -> Self {
        BytesMut { n: 0, d: [0; MCAP] }
    }
    pub fn new() -> Self {
        Self::with_capacity(0)
    }
    pub fn len(&self) -> usize {
        self.n
    }
    pub fn is_empty(&self) -> bool {
        self.n == 0
    }
    pub fn extend_from_slice(&mut self, s: &[u8]) {
        assert!(self.n + s.len() <= MCAP, "model bound: BytesMut capacity");
        let mut i = 0;
        while i < MCAP {
            if i < s.len() {
                self.d[self.n + i] = s[i];
            }
            i += 1;
        }
        self.n += s.len();
    }
}
impl Deref for BytesMut {
    type Target = [u8];
    fn deref(&self) -> &[u8] {
        &self.d[..self.n]
    }
}
impl DerefMut for BytesMut {
    fn deref_mut(&mut self) -> &mut [u8] {
        &mut self.d[..self.n]
    }
}
impl Buf for BytesMut {
    fn remaining(&self) -> usize {
        self.n
    }
    fn chunk(&self) -> &[u8] {
        &self.d[..self.n]
    }
    fn advance(&mut self, cnt: usize) {
        assert!(cnt <= self.n, "cannot advance past `remaining`");
        let mut i = 0;
        while i < MCAP {
            if i + cnt < self.n {
                self.d[i] = self.d[i + cnt];
            }
            i += 1;
        }
        self.n -= cnt;
    }
}
#[cfg(feature = "real-bufmut")]
unsafe impl real_bytes::BufMut for BytesMut {
    fn remaining_mut(&self) -> usize {
        MCAP - self.n
    }
    unsafe fn advance_mut(&mut self, cnt: usize) {
        assert!(self.n + cnt <= MCAP, "model bound: BytesMut capacity");
        self.n += cnt;
    }
    fn chunk_mut(&mut self) -> &mut real_bytes::buf::UninitSlice {
        let n = self.n;
        let p = self.d[n..].as_mut_ptr();
        unsafe { real_bytes::buf::UninitSlice::from_raw_parts_mut(p, MCAP - n) }
    }
}

// ------------------------------------------------------------------------------------------------
// Buf: transcription of bytes-1.0.1 src/buf/buf_impl.rs for the methods the repository calls.

pub trait Buf {
    fn remaining(&self) -> usize;
    fn chunk(&self) -> &[u8];
    fn advance(&mut self, cnt: usize);

    fn has_remaining(&self) -> bool {
        self.remaining() > 0
    }

    fn get_u8(&mut self) -> u8 {
        assert!(self.remaining() >= 1);
        let ret = self.chunk()[0];
        self.advance(1);
        ret
    }

    /// bytes-1.0.1: `assert!(len <= self.remaining(), "`len` greater than remaining")`, then the
    /// next `len` bytes are copied out and the cursor advanced.  (The real body goes through
    /// `BytesMut::put(self.take(len))`; the observable effect on a contiguous `Buf` is this.)
    fn copy_to_bytes(&mut self, len: usize) -> Bytes {
        assert!(len <= self.remaining(), "`len` greater than remaining");
        let r = Bytes::copy_from_slice(&self.chunk()[..len]);
        self.advance(len);
        r
    }

    fn copy_to_slice(&mut self, dst: &mut [u8]) {
        assert!(self.remaining() >= dst.len());
        let n = dst.len();
        let src = self.chunk();
        let mut i = 0;
        while i < n {
            dst[i] = src[i];
            i += 1;
        }
        self.advance(n);
    }

    fn reader(self) -> Reader<Self>
    where
        Self: Sized,
    {
        Reader { buf: self }
    }
}

impl Buf for &[u8] {
    fn remaining(&self) -> usize {
        self.len()
    }
    fn chunk(&self) -> &[u8] {
        self
    }
    fn advance(&mut self, cnt: usize) {
        *self = &self[cnt..];
    }
}

impl<T: AsRef<[u8]>> Buf for std::io::Cursor<T> {
    fn remaining(&self) -> usize {
        let len = self.get_ref().as_ref().len();
        let pos = self.position();

        if pos >= len as u64 {
            return 0;
        }

        len - pos as usize
    }

    fn chunk(&self) -> &[u8] {
        let len = self.get_ref().as_ref().len();
        let pos = self.position();

        if pos >= len as u64 {
            return &[];
        }

        &self.get_ref().as_ref()[pos as usize..]
    }

    fn advance(&mut self, cnt: usize) {
        let pos = (self.position() as usize)
            .checked_add(cnt)
            .expect("overflow");

        assert!(pos <= self.get_ref().as_ref().len());
        self.set_position(pos as u64);
    }
}

pub struct Reader<B> {
    buf: B,
}
impl<B: Buf> Reader<B> {
    pub fn into_inner(self) -> B {
        self.buf
    }
}
#[cfg(feature = "model-io")]
use vstd_shim::io as mio;
#[cfg(not(feature = "model-io"))]
use std::io as mio;
impl<B: Buf + Sized> mio::Read for Reader<B> {
    /// bytes-1.0.1: `len = min(remaining, dst.len()); copy_to_slice(&mut dst[..len])`.  Here with a
    /// constant loop bound and at most `RDCAP` bytes per call (a short read is within the `Read`
    /// contract).
    fn read(&mut self, dst: &mut [u8]) -> mio::Result<usize> {
        let mut len = std::cmp::min(self.buf.remaining(), dst.len());
        if len > RDCAP {
            len = RDCAP;
        }
        {
            let src = self.buf.chunk();
            let mut i = 0;
            while i < RDCAP {
                if i < len {
                    dst[i] = src[i];
                }
                i += 1;
            }
        }
        self.buf.advance(len);
        Ok(len)
    }
}
pub const RDCAP: usize = 8;

pub mod buf {
    pub use super::{Buf, Reader};
}
