//! Shadow crate `shadow-net`: verbatim copies of /repo/src/{net.rs,net/**,shutdown.rs}; this file
//! mirrors /repo/src/lib.rs minus `conf` / `telemetry` and with `storage` reduced to the
//! `KeyValueStorage` trait (overlay/src/storage.rs: the trait is copied from /repo at assembly).
#![allow(unused, rust_2018_idioms)]
pub mod net;
pub mod shutdown;
pub mod storage;
