//! Model of memmap2 0.5.3 as used by the repository: `MmapOptions::new().map(&File)` snapshots
//! (inode, length at this step); `Deref<[u8]>` yields the file's bytes cut to that length.
//! Contents of an append-only file below a given length never change (monitored, C14).
//! A zero-length map succeeds with `len() == 0`, as memmap2 0.5.3 does.
use vstd_shim::io;
use vstd_shim::fs::File;
#[derive(Debug)]
pub struct Mmap {
    slot: usize,
    len: usize,
}
pub struct MmapOptions;
impl MmapOptions {
    pub fn new() -> Self {
        MmapOptions
    }
    pub unsafe fn map(&self, f: &File) -> io::Result<Mmap> {
        let (slot, len) = vstd_shim::fs::__mmap_snapshot(f)?;
        Ok(Mmap { slot, len })
    }
}
impl std::ops::Deref for Mmap {
    type Target = [u8];
    fn deref(&self) -> &[u8] {
        vstd_shim::fs::__mmap_slice(self.slot, self.len)
    }
}
impl Mmap {
    pub fn __len(&self) -> usize {
        self.len
    }
    pub fn __slot(&self) -> usize {
        self.slot
    }
}
