//! Native replay of store scenarios against the REAL crate through its public API only.
//! usage: replay_store <dir> <op> [<op> ...]
//!   set:K:V   del:K   get:K   reopen   merge (policy Always, all triggers/thresholds at their most eager
//!   values; waits for the background task to run a merge pass)   maxfile:N (next open)   sync (next open: sync=always)
//!   ls (list directory with sizes)
//! Prints one line per op: `get K = Some(V)|None`, `del K = true|false`, ...
use bitcask::storage::bitcask::{Config, SyncStrategy};
use bitcask::storage::KeyValueStorage;
use bytes::Bytes;
use std::time::Duration;

fn conf(dir: &str, maxfile: u64, sync: bool, merge: bool) -> Config {
    conf_thr(dir, maxfile, sync, merge, 0.0, 0, u64::MAX)
}

fn conf_thr(dir: &str, maxfile: u64, sync: bool, merge: bool, frag: f64, dead: u64, small: u64) -> Config {
    let mut c = Config::default();
    c.path(dir).concurrency(1).max_file_size(maxfile);
    if sync {
        c.sync(SyncStrategy::Always);
    }
    if merge {
        c.merge_check_interval_ms(30)
            .merge_check_jitter(0.0)
            .merge_trigger_fragmentation(0.0)
            .merge_trigger_dead_bytes(0)
            .merge_threshold_fragmentation(frag)
            .merge_threshold_dead_bytes(dead)
            .merge_threshold_small_file(small);
    } else {
        c.merge_check_interval_ms(3_600_000);
    }
    c
}

fn main() {
    let a: Vec<String> = std::env::args().collect();
    let dir = a[1].clone();
    std::fs::create_dir_all(&dir).unwrap();
    let mut maxfile: u64 = 2 * 1024 * 1024 * 1024;
    let mut sync = false;
    let mut kv = Some(conf(&dir, maxfile, sync, false).open().unwrap());
    let mut h = kv.as_ref().unwrap().get_handle();
    for op in &a[2..] {
        let p: Vec<&str> = op.split(':').collect();
        match p[0] {
            "set" => {
                h.set(Bytes::from(p[1].to_string()), Bytes::from(p[2].to_string())).unwrap();
                println!("set {} {}", p[1], p[2]);
            }
            "del" => println!("del {} = {}", p[1], h.del(Bytes::from(p[1].to_string())).unwrap()),
            "get" => println!("get {} = {:?}", p[1], h.get(Bytes::from(p[1].to_string())).unwrap()),
            "maxfile" => maxfile = p[1].parse().unwrap(),
            "sync" => sync = true,
            "reopen" => {
                drop(kv.take());
                std::thread::sleep(Duration::from_millis(50));
                kv = Some(conf(&dir, maxfile, sync, false).open().unwrap());
                h = kv.as_ref().unwrap().get_handle();
                println!("reopen");
            }
            "merge" => {
                // reopen with an eager merge policy, let the background task run one pass, reopen quietly
                drop(kv.take());
                std::thread::sleep(Duration::from_millis(50));
                // merge[:frag:dead_bytes:small_file] — thresholds that decide which files are selected
                let frag: f64 = p.get(1).map(|x| x.parse().unwrap()).unwrap_or(0.0);
                let dead: u64 = p.get(2).map(|x| if *x == "max" { u64::MAX } else { x.parse().unwrap() }).unwrap_or(0);
                let small: u64 = p.get(3).map(|x| if *x == "max" { u64::MAX } else { x.parse().unwrap() }).unwrap_or(u64::MAX);
                kv = Some(conf_thr(&dir, maxfile, sync, true, frag, dead, small).open().unwrap());
                std::thread::sleep(Duration::from_millis(400));
                drop(kv.take());
                std::thread::sleep(Duration::from_millis(50));
                kv = Some(conf(&dir, maxfile, sync, false).open().unwrap());
                h = kv.as_ref().unwrap().get_handle();
                println!("merge (background pass) + reopen");
            }
            "ls" => {
                let mut v: Vec<_> = std::fs::read_dir(&dir).unwrap().map(|e| e.unwrap()).map(|e| (e.file_name().into_string().unwrap(), e.metadata().unwrap().len())).collect();
                v.sort();
                println!("ls {:?}", v);
            }
            _ => panic!("unknown op {}", op),
        }
    }
}
