//! Sequential model of `dashmap::DashMap` (5.x) for the API the repository uses:
//! `default, insert, remove, get, entry().or_default(), iter, iter_mut, len` and guard types with
//! `key()/value()/Deref/DerefMut`.  A fixed array of `MCAP` buckets; every operation is atomic
//! ("each key is its own shard").  Iteration starts at bucket `ROTATION` (harness-controlled,
//! may be symbolic) so that no result depends on hash order.
use std::cell::UnsafeCell;
use std::marker::PhantomData;
use std::ops::{Deref, DerefMut};

pub const MCAP: usize = 8;
/// First bucket visited by `iter` / `iter_mut`.
pub static mut ROTATION: usize = 0;
/// Real DashMap: the guard yielded by `iter_mut` holds the WRITE lock of its shard while the loop
/// body runs, so a concurrent `get` of that key blocks until the body is done.  The sequentialised
/// C04 probe runs inside such a body: the model remembers which bucket is locked (index + 1, 0 = none;
/// only the key index is ever iterated mutably) and a `get` that hits it reports "would block" instead of an observation.
pub static mut LOCKED_BUCKET: usize = 0;
pub static mut WOULD_BLOCK: bool = false;
/// The dual (C04, reader preempted): while `TRACK_READ` is set, a `Ref` returned by `get` on the key
/// index marks its bucket (index + 1) as READ-locked until it is dropped - the real guard holds the
/// shard's read lock.  A writer-side `iter_mut` / `insert` / `remove` / `get_mut` that reaches that
/// bucket would block in the real DashMap until the reader is done, so the interleaving the
/// sequentialised harness is executing cannot happen: `INFEASIBLE` is set and the harness discards
/// the run.  Only the key index is tracked (told apart from the statistics map, whose keys are
/// `u64`, by the size of the key type - a compile-time constant, unlike a map address).
pub static mut TRACK_READ: bool = false;
pub static mut READ_LOCKED: usize = 0;
pub static mut INFEASIBLE: bool = false;
#[inline(always)]
fn tracked<K>() -> bool {
    std::mem::size_of::<K>() != 8
}
#[inline(always)]
fn writer_touches<K>(idx: usize) {
    unsafe {
        if tracked::<K>() && READ_LOCKED == idx + 1 {
            INFEASIBLE = true;
        }
    }
}
impl<'a, K, V> Drop for Ref<'a, K, V> {
    fn drop(&mut self) {
        unsafe {
            if TRACK_READ && tracked::<K>() {
                READ_LOCKED = 0;
            }
        }
    }
}

pub struct Inner<K, V> {
    s: [Option<(K, V)>; MCAP],
}
pub struct DashMap<K, V> {
    items: UnsafeCell<Inner<K, V>>,
}
unsafe impl<K: Send, V: Send> Sync for DashMap<K, V> {}
unsafe impl<K: Send, V: Send> Send for DashMap<K, V> {}
impl<K, V> std::fmt::Debug for DashMap<K, V> {
    fn fmt(&self, f: &mut std::fmt::Formatter<'_>) -> std::fmt::Result {
        f.write_str("DashMap")
    }
}
impl<K: PartialEq, V> Default for DashMap<K, V> {
    fn default() -> Self {
        Self { items: UnsafeCell::new(Inner { s: [None, None, None, None, None, None, None, None] }) }
    }
}
pub struct Ref<'a, K, V> {
    p: *const (K, V),
    _m: PhantomData<&'a ()>,
}
pub struct RefMut<'a, K, V> {
    p: *mut (K, V),
    _m: PhantomData<&'a ()>,
}
pub struct RefMulti<'a, K, V> {
    p: *const (K, V),
    _m: PhantomData<&'a ()>,
}
pub struct RefMutMulti<'a, K, V> {
    p: *mut (K, V),
    _m: PhantomData<&'a ()>,
}
macro_rules! acc {
    ($t:ident) => {
        impl<'a, K, V> $t<'a, K, V> {
            pub fn key(&self) -> &K {
                unsafe { &(*self.p).0 }
            }
            pub fn value(&self) -> &V {
                unsafe { &(*self.p).1 }
            }
            pub fn pair(&self) -> (&K, &V) {
                unsafe { (&(*self.p).0, &(*self.p).1) }
            }
        }
        impl<'a, K, V> Deref for $t<'a, K, V> {
            type Target = V;
            fn deref(&self) -> &V {
                unsafe { &(*self.p).1 }
            }
        }
    };
}
acc!(Ref);
acc!(RefMut);
acc!(RefMulti);
acc!(RefMutMulti);
impl<'a, K, V> RefMut<'a, K, V> {
    pub fn value_mut(&mut self) -> &mut V {
        unsafe { &mut (*self.p).1 }
    }
}
impl<'a, K, V> RefMutMulti<'a, K, V> {
    pub fn value_mut(&mut self) -> &mut V {
        unsafe { &mut (*self.p).1 }
    }
}
impl<'a, K, V> DerefMut for RefMut<'a, K, V> {
    fn deref_mut(&mut self) -> &mut V {
        unsafe { &mut (*self.p).1 }
    }
}
impl<'a, K, V> Drop for RefMutMulti<'a, K, V> {
    fn drop(&mut self) {
        unsafe { LOCKED_BUCKET = 0 };
    }
}
impl<'a, K, V> DerefMut for RefMutMulti<'a, K, V> {
    fn deref_mut(&mut self) -> &mut V {
        unsafe { &mut (*self.p).1 }
    }
}
pub struct Entry<'a, K, V> {
    m: &'a DashMap<K, V>,
    k: K,
}
impl<'a, K: PartialEq, V> Entry<'a, K, V> {
    pub fn or_default(self) -> RefMut<'a, K, V>
    where
        V: Default,
    {
        self.or_insert_with(V::default)
    }
    pub fn or_insert_with(self, f: impl FnOnce() -> V) -> RefMut<'a, K, V> {
        let v = unsafe { &mut *self.m.items.get() };
        let mut idx = MCAP;
        let mut free = MCAP;
        let mut i = 0;
        while i < MCAP {
            match &v.s[i] {
                Some(e) => {
                    if idx == MCAP && e.0 == self.k {
                        idx = i;
                    }
                }
                None => {
                    if free == MCAP {
                        free = i;
                    }
                }
            }
            i += 1;
        }
        if idx == MCAP {
            assert!(free < MCAP, "model bound: map capacity");
            v.s[free] = Some((self.k, f()));
            idx = free;
        }
        RefMut { p: v.s[idx].as_mut().unwrap() as *mut (K, V), _m: PhantomData }
    }
    pub fn or_insert(self, val: V) -> RefMut<'a, K, V> {
        self.or_insert_with(move || val)
    }
}
fn rot(i: usize) -> usize {
    let r = unsafe { ROTATION };
    let j = i + r;
    if j >= MCAP {
        j - MCAP
    } else {
        j
    }
}
pub struct Iter<'a, K, V> {
    m: &'a DashMap<K, V>,
    i: usize,
}
impl<'a, K, V> Iterator for Iter<'a, K, V> {
    type Item = RefMulti<'a, K, V>;
    fn next(&mut self) -> Option<Self::Item> {
        let v = unsafe { &*self.m.items.get() };
        while self.i < MCAP {
            let j = rot(self.i);
            self.i += 1;
            if let Some(e) = &v.s[j] {
                return Some(RefMulti { p: e as *const (K, V), _m: PhantomData });
            }
        }
        None
    }
}
pub struct IterMut<'a, K, V> {
    m: &'a DashMap<K, V>,
    i: usize,
}
impl<'a, K, V> Iterator for IterMut<'a, K, V> {
    type Item = RefMutMulti<'a, K, V>;
    fn next(&mut self) -> Option<Self::Item> {
        let v = unsafe { &mut *self.m.items.get() };
        while self.i < MCAP {
            let j = rot(self.i);
            self.i += 1;
            if let Some(e) = &mut v.s[j] {
                let p = e as *mut (K, V);
                // bucket index + 1 (an integer, not an address: a pointer-to-integer comparison is
                // not constant-folded by CBMC and would make every later `get` a symbolic branch)
                unsafe { LOCKED_BUCKET = j + 1 };
                writer_touches::<K>(j);
                return Some(RefMutMulti { p, _m: PhantomData });
            }
        }
        None
    }
}
impl<K: PartialEq, V> DashMap<K, V> {
    pub fn new() -> Self {
        Self::default()
    }
    fn find(&self, k: &K) -> usize {
        let v = unsafe { &*self.items.get() };
        let mut idx = MCAP;
        let mut i = 0;
        while i < MCAP {
            if let Some(e) = &v.s[i] {
                if idx == MCAP && &e.0 == k {
                    idx = i;
                }
            }
            i += 1;
        }
        idx
    }
    pub fn insert(&self, k: K, val: V) -> Option<V> {
        let idx = self.find(&k);
        let v = unsafe { &mut *self.items.get() };
        if idx < MCAP {
            writer_touches::<K>(idx);
            return Some(std::mem::replace(&mut v.s[idx].as_mut().unwrap().1, val));
        }
        let mut i = 0;
        while i < MCAP {
            if v.s[i].is_none() {
                v.s[i] = Some((k, val));
                return None;
            }
            i += 1;
        }
        panic!("model bound: map capacity");
    }
    pub fn remove(&self, k: &K) -> Option<(K, V)> {
        let idx = self.find(k);
        if idx < MCAP {
            writer_touches::<K>(idx);
            let v = unsafe { &mut *self.items.get() };
            v.s[idx].take()
        } else {
            None
        }
    }
    pub fn remove_if(&self, k: &K, f: impl FnOnce(&K, &V) -> bool) -> Option<(K, V)> {
        let idx = self.find(k);
        if idx < MCAP {
            let v = unsafe { &mut *self.items.get() };
            let take = match &v.s[idx] {
                Some(e) => f(&e.0, &e.1),
                None => false,
            };
            if take {
                v.s[idx].take()
            } else {
                None
            }
        } else {
            None
        }
    }
    pub fn get(&self, k: &K) -> Option<Ref<'_, K, V>> {
        let idx = self.find(k);
        if idx < MCAP {
            let v = unsafe { &*self.items.get() };
            let p = v.s[idx].as_ref().unwrap() as *const (K, V);
            if unsafe { LOCKED_BUCKET } == idx + 1 {
                // the real call would block here until the iter_mut guard is released
                unsafe { WOULD_BLOCK = true };
                return None;
            }
            unsafe {
                if TRACK_READ && tracked::<K>() {
                    READ_LOCKED = idx + 1;
                }
            }
            Some(Ref { p, _m: PhantomData })
        } else {
            None
        }
    }
    pub fn get_mut(&self, k: &K) -> Option<RefMut<'_, K, V>> {
        let idx = self.find(k);
        if idx < MCAP {
            let v = unsafe { &mut *self.items.get() };
            Some(RefMut { p: v.s[idx].as_mut().unwrap() as *mut (K, V), _m: PhantomData })
        } else {
            None
        }
    }
    pub fn contains_key(&self, k: &K) -> bool {
        self.find(k) < MCAP
    }
    pub fn entry(&self, k: K) -> Entry<'_, K, V> {
        Entry { m: self, k }
    }
    pub fn iter(&self) -> Iter<'_, K, V> {
        Iter { m: self, i: 0 }
    }
    pub fn iter_mut(&self) -> IterMut<'_, K, V> {
        IterMut { m: self, i: 0 }
    }
    pub fn len(&self) -> usize {
        let v = unsafe { &*self.items.get() };
        let mut n = 0;
        let mut i = 0;
        while i < MCAP {
            if v.s[i].is_some() {
                n += 1;
            }
            i += 1;
        }
        n
    }
    pub fn is_empty(&self) -> bool {
        self.len() == 0
    }
    pub fn clear(&self) {
        let v = unsafe { &mut *self.items.get() };
        let mut i = 0;
        while i < MCAP {
            v.s[i] = None;
            i += 1;
        }
    }
    /// Model-only: bucket access for harness oracles (no effect on the map).
    pub fn __bucket(&self, i: usize) -> Option<&(K, V)> {
        let v = unsafe { &*self.items.get() };
        v.s[i].as_ref()
    }
}
