use super::c07::n_harness;
use super::*;
n_harness! { 12, fn pn_check_literal() {
    let b = *b"$-1\r\n";
    let mut c = Cursor::new(&b[..]);
    let r = Frame::check(&mut c);
    assert!(r.is_ok());
    assert!(c.position() == 5);
    std::mem::forget(r);
} }
n_harness! { 12, fn pn_check_literal_eq() {
    let b = *b"$-1\r\n";
    let mut c = Cursor::new(&b[..3]);
    let r = Frame::check(&mut c);
    assert!(r == Err(Error::Incomplete));
    std::mem::forget(r);
} }
n_harness! { 12, fn pn_parse_literal() {
    let b = *b"$-1\r\n";
    let mut c = Cursor::new(&b[..]);
    let p = Frame::parse(&mut c);
    assert!(p.is_ok());
    std::mem::forget(p);
} }
n_harness! { 30, fn pn_null_cutloop() {
    let b = *b"$-1\r\nXYZ";
    let mut cut = 0;
    while cut < 5 {
        let mut c = Cursor::new(&b[..cut]);
        let r = Frame::check(&mut c);
        assert!(r == Err(Error::Incomplete));
        std::mem::forget(r);
        cut += 1;
    }
} }
n_harness! { 30, fn pn_null_symtail() {
    let mut b = *b"$-1\r\nXYZ";
    let t: [u8; 3] = kani::any();
    b[5] = t[0]; b[6] = t[1]; b[7] = t[2];
    let mut c = Cursor::new(&b[..]);
    let r = Frame::check(&mut c);
    assert!(r.is_ok());
    assert!(c.position() == 5);
    c.set_position(0);
    let p = Frame::parse(&mut c);
    assert!(p.is_ok());
    std::mem::forget(p);
    std::mem::forget(r);
} }
n_harness! { 30, fn pn_null_cutloop1() {
    let b = *b"$-1\r\nXYZ";
    let mut cut = 1;
    while cut < 5 {
        let mut c = Cursor::new(&b[..cut]);
        let r = Frame::check(&mut c);
        assert!(r == Err(Error::Incomplete));
        std::mem::forget(r);
        cut += 1;
    }
} }
n_harness! { 30, fn pn_bulk_cutloop1() {
    let mut b = *b"$2\r\nab\r\nXYZ";
    let t: [u8; 2] = kani::any();
    b[4] = t[0]; b[5] = t[1];
    let mut cut = 1;
    while cut < 8 {
        let mut c = Cursor::new(&b[..cut]);
        let r = Frame::check(&mut c);
        assert!(r == Err(Error::Incomplete));
        std::mem::forget(r);
        cut += 1;
    }
} }
n_harness! { 30, fn pn_arr_int() {
    let b = *b"*1\r\n:7\r\nXYZ";
    let mut c = Cursor::new(&b[..]);
    let r = Frame::check(&mut c);
    assert!(r.is_ok());
    assert!(c.position() == 8);
    c.set_position(0);
    let p = Frame::parse(&mut c);
    assert!(p.is_ok());
    std::mem::forget(p);
    std::mem::forget(r);
} }
n_harness! { 30, fn pn_arr_simple() {
    let b = *b"*1\r\n+a\r\nXYZ";
    let mut c = Cursor::new(&b[..]);
    let r = Frame::check(&mut c);
    assert!(r.is_ok());
    c.set_position(0);
    let p = Frame::parse(&mut c);
    assert!(p.is_ok());
    std::mem::forget(p);
    std::mem::forget(r);
} }
n_harness! { 30, fn pn_arr_int_checkonly() {
    let b = *b"*1\r\n:7\r\nXYZ";
    let mut c = Cursor::new(&b[..]);
    let r = Frame::check(&mut c);
    assert!(r.is_ok());
    std::mem::forget(r);
} }
