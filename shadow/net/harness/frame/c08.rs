//! C08 — RESP encoding and decoding round-trip, independent of stream chunking.
//!
//! The encoder (`Connection::write_frame`) is async code over tokio and cannot be encoded
//! (measured: > 20 min for a 4-byte frame).  A reference encoder `enc` is used instead; that it
//! produces the same bytes as the real `write_frame` is validated natively on every run
//! (replay/net `enc_diff`), which is validation of the reference model, not the deciding step.
//! Decided here, for `b = enc(f) ++ tail` with a symbolic tail (the start of whatever follows):
//!   (1) `check(b)` accepts exactly |enc(f)| bytes and `parse(b)` returns `f` at that position;
//!   (2) for every symbolic cut `n < |enc(f)|`: `check(b[..n]) == Err(Incomplete)`.
//! (1)+(2) are exactly the condition under which a "try to parse, else read more" loop returns the
//! same frames for every segmentation of a concatenation of encodings, down to one byte.
use super::c07::n_harness;
use super::*;

const TAIL: usize = 3;

/// Fixed-capacity output buffer of the reference encoder.
struct Out<const M: usize> {
    b: [u8; M],
    n: usize,
}
impl<const M: usize> Out<M> {
    fn new() -> Self {
        Out { b: [0; M], n: 0 }
    }
    fn put(&mut self, x: u8) {
        self.b[self.n] = x;
        self.n += 1;
    }
    fn crlf(&mut self) {
        self.put(b'\r');
        self.put(b'\n');
    }
    /// decimal of a small non-negative number (lengths, counts)
    fn small(&mut self, v: usize) {
        assert!(v < 100);
        if v >= 10 {
            self.put(b'0' + (v / 10) as u8);
        }
        self.put(b'0' + (v % 10) as u8);
    }
    fn bulk(&mut self, p: &[u8]) {
        self.put(b'$');
        self.small(p.len());
        self.crlf();
        let mut i = 0;
        while i < p.len() {
            self.put(p[i]);
            i += 1;
        }
        self.crlf();
    }
    fn line(&mut self, t: u8, p: &[u8]) {
        self.put(t);
        let mut i = 0;
        while i < p.len() {
            self.put(p[i]);
            i += 1;
        }
        self.crlf();
    }
    fn tail(&mut self) {
        let t: [u8; TAIL] = kani::any();
        let mut i = 0;
        while i < TAIL {
            self.b[self.n + i] = t[i];
            i += 1;
        }
    }
}

/// (1) whole + tail, and (2) every strict prefix is Incomplete.  Returns the parsed frame.
fn decode_contract<const M: usize>(o: &Out<M>, prefixes: bool) -> Frame {
    let total = o.n + TAIL;
    // (2) symbolic cut
    // every strict prefix of at least one byte (the cut points are enumerated in the harness: a
    // symbolic cut makes the length of every reader loop symbolic and symex diverges - measured;
    // the empty prefix is `get_byte` on an empty buffer, decided in c07_small_readers).  Skipped
    // for arrays (`prefixes == false`): an `Err` travelling through `?` is a niche-encoded
    // `Result<i64/u8, frame::Error>` whose discriminant CBMC does not fold, the "Ok" side then
    // carries a garbage element count into the element loop and the recursion (measured: > 9 GB).
    let mut cut = 1;
    while prefixes && cut < o.n {
        let mut c = Cursor::new(&o.b[..cut]);
        let r = Frame::check(&mut c);
        assert!(r == Err(Error::Incomplete), "a strict prefix of a valid encoding is not reported as incomplete");
        std::mem::forget(r);
        cut += 1;
    }
    // (1a) the encoding alone, at the very end of what has been received
    let mut c = Cursor::new(&o.b[..o.n]);
    let r = Frame::check(&mut c);
    assert!(r.is_ok(), "check does not accept a complete encoding that ends the buffer");
    assert!(c.position() as usize == o.n, "check accepts a length different from the encoding's");
    std::mem::forget(r);
    // (1b) the encoding followed by the start of the next one
    let mut c = Cursor::new(&o.b[..total]);
    let r = Frame::check(&mut c);
    assert!(r.is_ok(), "check rejects a valid encoding");
    assert!(c.position() as usize == o.n, "check accepts a length different from the encoding's");
    c.set_position(0);
    let p = Frame::parse(&mut c);
    assert!(c.position() as usize == o.n, "parse stops at a position different from the encoding's length");
    match p {
        Ok(f) => f,
        Err(_) => {
            assert!(false, "parse rejects a valid encoding");
            loop {}
        }
    }
}

fn ascii_no_crlf<const L: usize>() -> [u8; L] {
    let s: [u8; L] = kani::any();
    let mut i = 0;
    while i < L {
        kani::assume(s[i] < 0x80 && s[i] != b'\r' && s[i] != b'\n');
        i += 1;
    }
    s
}

fn simple_contract<const L: usize>(t: u8) {
    let s = ascii_no_crlf::<L>();
    let mut o = Out::<{ 16 }>::new();
    o.line(t, &s);
    o.tail();
    let f = decode_contract(&o, true);
    let got = match &f {
        Frame::SimpleString(x) if t == b'+' => x.as_bytes(),
        Frame::Error(x) if t == b'-' => x.as_bytes(),
        _ => {
            assert!(false, "wrong frame variant");
            loop {}
        }
    };
    assert!(got.len() == L, "string length differs");
    let i: usize = kani::any();
    kani::assume(i < L);
    assert!(got[i] == s[i], "string content differs");
    std::mem::forget(f);
}
n_harness! { 30, fn c08_simple_0() { simple_contract::<0>(b'+') } }
n_harness! { 30, fn c08_simple_2() { simple_contract::<2>(b'+') } }
n_harness! { 30, fn c08_error_3() { simple_contract::<3>(b'-') } }

fn bulk_contract<const L: usize>() {
    let s: [u8; L] = kani::any(); // arbitrary bytes, CR / LF / NUL included
    let mut o = Out::<{ 20 }>::new();
    o.bulk(&s);
    o.tail();
    let f = decode_contract(&o, true);
    match &f {
        Frame::BulkString(x) => {
            assert!(x.len() == L, "bulk length differs");
            let i: usize = kani::any();
            kani::assume(i < L);
            assert!(x[i] == s[i], "bulk content differs");
        }
        _ => assert!(false, "wrong frame variant"),
    }
    std::mem::forget(f);
}
n_harness! { 30, fn c08_bulk_0() { bulk_contract::<0>() } }
n_harness! { 30, fn c08_bulk_2() { bulk_contract::<2>() } }
n_harness! { 30, fn c08_bulk_4() { bulk_contract::<4>() } }

n_harness! { 30, fn c08_null() {
    let mut o = Out::<{ 12 }>::new();
    o.put(b'$'); o.put(b'-'); o.put(b'1'); o.crlf();
    o.tail();
    let f = decode_contract(&o, true);
    assert!(matches!(&f, Frame::Null), "null does not round-trip");
    std::mem::forget(f);
} }

/// Integers, given as a canonical digit string (optional '-', no leading zero): D symbolic digits.
fn integer_contract<const D: usize, const NEG: bool>() {
    let neg = NEG;
    let d: [u8; D] = kani::any();
    let mut i = 0;
    while i < D {
        kani::assume(d[i] >= b'0' && d[i] <= b'9');
        i += 1;
    }
    kani::assume(D == 1 || d[0] != b'0');
    kani::assume(!(neg && D == 1 && d[0] == b'0'));
    let mut o = Out::<{ 16 }>::new();
    o.put(b':');
    if neg {
        o.put(b'-');
    }
    let mut val: i64 = 0;
    let mut i = 0;
    while i < D {
        o.put(d[i]);
        let x = (d[i] - b'0') as i64;
        val = if neg { val * 10 - x } else { val * 10 + x };
        i += 1;
    }
    o.crlf();
    o.tail();
    let f = decode_contract(&o, true);
    match &f {
        Frame::Integer(x) => assert!(*x == val, "integer does not round-trip"),
        _ => assert!(false, "wrong frame variant"),
    }
    std::mem::forget(f); // (the drop glue of the recursive Frame type is unwound to the bound otherwise)
}
n_harness! { 30, fn c08_integer_1() { integer_contract::<1, false>() } }
n_harness! { 30, fn c08_integer_1n() { integer_contract::<1, true>() } }
n_harness! { 30, fn c08_integer_4() { integer_contract::<4, false>() } }
n_harness! { 30, fn c08_integer_4n() { integer_contract::<4, true>() } }
n_harness! { 30, fn c08_integer_7() { integer_contract::<7, false>() } }
n_harness! { 30, fn c08_integer_7n() { integer_contract::<7, true>() } }

/// Integers with CONCRETE digits (symbolic digits do not finish, see above): `:-7\r\n` and `:42\r\n`,
/// every strict prefix (in particular the one that ends right after the sign) is Incomplete, the
/// whole encoding followed by 3 SYMBOLIC bytes decodes to the value at the encoding's length.
fn integer_concrete(neg: bool) {
    let mut o = Out::<{ 16 }>::new();
    o.put(b':');
    if neg {
        o.put(b'-');
        o.put(b'7');
    } else {
        o.put(b'4');
        o.put(b'2');
    }
    o.crlf();
    o.tail();
    let f = decode_contract(&o, true);
    match &f {
        Frame::Integer(x) => assert!(*x == if neg { -7 } else { 42 }, "integer does not round-trip"),
        _ => assert!(false, "wrong frame variant"),
    }
    std::mem::forget(f);
}
n_harness! { 30, fn c08_integer_c_neg() { integer_concrete(true) } }
n_harness! { 30, fn c08_integer_c_pos() { integer_concrete(false) } }

/// i64::MIN / i64::MAX and their neighbours: the 18 leading digits are concrete, the last digit and
/// the sign are symbolic (in range).
fn integer_limits<const NEG: bool>() {
    const PFX: [u8; 18] = *b"922337203685477580";
    let neg = NEG;
    let last: u8 = kani::any();
    kani::assume(last >= b'0' && last <= if neg { b'8' } else { b'7' });
    let mut o = Out::<{ 28 }>::new();
    o.put(b':');
    if neg {
        o.put(b'-');
    }
    let mut i = 0;
    while i < 18 {
        o.put(PFX[i]);
        i += 1;
    }
    o.put(last);
    o.crlf();
    o.tail();
    let f = decode_contract(&o, true);
    let mag: i128 = 9223372036854775800 + (last - b'0') as i128;
    let want: i128 = if neg { -mag } else { mag };
    match &f {
        Frame::Integer(x) => {
            assert!(*x as i128 == want, "integer near the i64 limit does not round-trip");
            kani::cover!(*x == i64::MIN, "i64::MIN round-trips");
            kani::cover!(*x == i64::MAX, "i64::MAX round-trips");
        }
        _ => assert!(false, "wrong frame variant"),
    }
    std::mem::forget(f);
}
n_harness! { 30, fn c08_integer_limits_pos() { integer_limits::<false>() } }
n_harness! { 30, fn c08_integer_limits_neg() { integer_limits::<true>() } }

/// Array of two bulk strings (1 and 2 arbitrary bytes) — the shape of every request and of no reply.
n_harness! { 30, fn c08_array_bulk2() {
    let a: [u8; 1] = kani::any();
    let b: [u8; 2] = kani::any();
    let mut o = Out::<{ 28 }>::new();
    o.put(b'*'); o.small(2); o.crlf();
    o.bulk(&a);
    o.bulk(&b);
    o.tail();
    let f = decode_contract(&o, false);
    match &f {
        Frame::Array(v) => {
            assert!(v.len() == 2, "array length differs");
            match (&v[0], &v[1]) {
                (Frame::BulkString(x), Frame::BulkString(y)) => {
                    assert!(x.len() == 1 && x[0] == a[0], "first element differs");
                    assert!(y.len() == 2 && y[0] == b[0] && y[1] == b[1], "second element differs");
                }
                _ => assert!(false, "wrong element variants"),
            }
        }
        _ => assert!(false, "wrong frame variant"),
    }
    std::mem::forget(f);
} }

/// Array mixing an integer, a null and a simple string; and the empty array.  Element CONTENTS are
/// concrete here: any error path inside an array element (a digit or line byte that might be
/// invalid) sends a niche-encoded `Err` through `?` inside the element loop, whose "Ok" side
/// carries garbage into the loop and the recursion (DESIGN.md 0.2/7); symbolic contents of these
/// element kinds are decided at top level (c08_integer_*, c08_simple_*), symbolic bulk payloads
/// inside arrays in c08_array_bulk2.
fn array_mixed(empty: bool) {
    let mut o = Out::<{ 28 }>::new();
    o.put(b'*');
    if empty {
        o.small(0); o.crlf();
    } else {
        o.small(3); o.crlf();
        o.put(b':'); o.put(b'7'); o.crlf();
        o.put(b'$'); o.put(b'-'); o.put(b'1'); o.crlf();
        o.line(b'+', b"q");
    }
    o.tail();
    let f = decode_contract(&o, false);
    match &f {
        Frame::Array(v) => {
            if empty {
                assert!(v.len() == 0, "empty array does not round-trip");
            } else {
                assert!(v.len() == 3, "array length differs");
                assert!(matches!(&v[0], Frame::Integer(7)), "integer element differs");
                assert!(matches!(&v[1], Frame::Null), "null element differs");
                assert!(matches!(&v[2], Frame::SimpleString(x) if x.as_bytes() == b"q"), "string element differs");
            }
        }
        _ => assert!(false, "wrong frame variant"),
    }
    std::mem::forget(f);
}
n_harness! { 30, fn c08_array_mixed() { array_mixed(false) } }
n_harness! { 30, fn c08_array_empty() { array_mixed(true) } }

/// Arrays whose elements are the shortest possible frames (empty simple string / error: 3 bytes).
fn array_short_elems(two: bool) {
    let d: u8 = b'7';
    let mut o = Out::<{ 28 }>::new();
    o.put(b'*');
    o.small(if two { 2 } else { 3 });
    o.crlf();
    o.line(b'+', &[]);
    if !two {
        o.line(b'-', &[]);
    }
    o.put(b':'); o.put(d); o.crlf();
    o.tail();
    let f = decode_contract(&o, false);
    match &f {
        Frame::Array(v) => {
            assert!(v.len() == if two { 2 } else { 3 }, "array length differs");
            // (no `==` on frames: the derived `PartialEq` of the recursive `Frame` type is unwound to
            // the recursion bound by CBMC)
            assert!(matches!(&v[0], Frame::SimpleString(x) if x.is_empty()), "empty simple string element differs");
            assert!(matches!(&v[v.len() - 1], Frame::Integer(x) if *x == (d - b'0') as i64), "integer element differs");
        }
        _ => assert!(false, "wrong frame variant"),
    }
    std::mem::forget(f);
}
n_harness! { 30, fn c08_array_short_elems2() { array_short_elems(true) } }
n_harness! { 30, fn c08_array_short_elems3() { array_short_elems(false) } }
