use super::*;

/// A merge whose LAST step (creating the next active file) fails: the merge outputs exist with ids
/// above the writer's active id; a later acknowledged put lands in the OLD active file and is
/// overridden by the merge output at the next start-up.
#[test]
fn failed_merge_then_put_then_restart() {
    let dir = tempfile::tempdir().unwrap();
    let mut conf = Config::default();
    conf.concurrency(1).path(dir.path());
    conf.merge_threshold_fragmentation(0.0).merge_threshold_dead_bytes(0).merge_threshold_small_file(u64::MAX);
    conf.merge_check_interval_ms(3_600_000);
    {
        let kv = conf.clone().open().unwrap();
        let h = kv.get_handle();
        h.put(Bytes::from("a"), Bytes::from("1")).unwrap();
        h.put(Bytes::from("b"), Bytes::from("1")).unwrap();
        let active = h.writer.lock().active_fileid;
        // the merge will write <active+1> and then create <active+2> as the new active file:
        // make that creation fail (stands for ENOSPC / EIO / EMFILE at that call)
        let blocker = utils::datafile_name(dir.path(), active + 2);
        std::fs::create_dir(&blocker).unwrap();
        let r = h.merge();
        assert!(r.is_err(), "the merge must report the failed creation");
        std::fs::remove_dir(&blocker).unwrap();
        // later acknowledged operations
        h.put(Bytes::from("a"), Bytes::from("2")).unwrap();
        assert_eq!(h.get(Bytes::from("a")).unwrap(), Some(Bytes::from("2")));
        assert!(h.delete(Bytes::from("b")).unwrap());
        assert_eq!(h.get(Bytes::from("b")).unwrap(), None);
    }
    let kv = conf.open().unwrap();
    let h = kv.get_handle();
    assert_eq!(h.get(Bytes::from("a")).unwrap(), Some(Bytes::from("2")), "a reverted after restart");
    assert_eq!(h.get(Bytes::from("b")).unwrap(), None, "b resurrected after restart");
}
