//! C04 (REDUCED: sequentialised writer || reader at the granularity of file-system calls).
use super::sc::*;
use super::*;

/// Lay a put record with a 3-byte value (8 bytes: as long as the scaled write buffer, so that the
/// real `LogWriter::append` hands it to the file in more than one `write` call).
fn lay_put3(slot: usize, key: u8, v: [u8; 3], upto: usize) {
    let ino = &mut mfs::__fs().inodes[slot];
    let data = &mut mfs::__data()[slot];
    let p = ino.len;
    let rec = [0u8, 1, key, 1, 3, v[0], v[1], v[2]];
    let mut i = 0;
    while i < 8 {
        if i < upto {
            data[p + i] = rec[i];
        }
        i += 1;
    }
    ino.len = p + upto;
}

s_harness! {
/// Stale map: a reader mapped the active file while the writer was between two `write` calls of
/// one append, i.e. at a length that ends INSIDE the record (symbolic: any such length).  Once the
/// record is complete and indexed, the reader's real `LogDir::read` for it must return the
/// record — not panic on a slice beyond its old mapping, not fail.
fn c04_stale_map() {
    mfs::__preexisting(dslot(0));
    let va: u8 = kani::any();
    lay_data(dslot(0), 0, K[0], Some(va));
    let vb: [u8; 3] = kani::any();
    let part: usize = kani::any();
    kani::assume(part >= 1 && part < 8);
    lay_put3(dslot(0), K[1], vb, part); // the first `part` bytes of record B have reached the file
    let mut d = LogDir::new(2);
    let a: DataFileEntry = must(unsafe { d.read("d", 0, DATA_PUT_LEN as u64, 0) }); // maps the file now
    assert!(v1(&a.value) == Some(va));
    // the writer's next write call completes B; the index entry (len 8, pos 6) is published
    {
        let ino = &mut mfs::__fs().inodes[dslot(0)];
        let data = &mut mfs::__data()[dslot(0)];
        let rec = [0u8, 1, K[1], 1, 3, vb[0], vb[1], vb[2]];
        let mut i = 0;
        while i < 8 {
            data[DATA_PUT_LEN + i] = rec[i];
            i += 1;
        }
        ino.len = DATA_PUT_LEN + 8;
    }
    let r: bincode::Result<DataFileEntry> = unsafe { d.read("d", 0, 8, DATA_PUT_LEN as u64) };
    match r {
        Ok(b) => match &b.value {
            Some(x) => assert!(x.len() == 3 && x[0] == vb[0] && x[1] == vb[1] && x[2] == vb[2], "[C04] a reader with an older mapping returned different bytes"),
            None => assert!(false, "[C04] a reader with an older mapping returned a tombstone"),
        },
        Err(_) => assert!(false, "[C04] a reader with an older mapping failed to read a complete, indexed record"),
    }
    std::mem::forget(d);
} }

/// Probe hook: at the chosen step boundary of the writer-side operation a reader-side `get` of
/// both keys runs on a reader whose maps were taken BEFORE the operation started.
static mut PROBE_READER: Option<Reader> = None;
static mut PROBE_BEFORE: Model = [None, None];
static mut PROBE_AFTER: Model = [None, None];
static mut PROBE_RAN: bool = false;
fn probe() {
    unsafe {
        PROBE_RAN = true;
        if let Some(r) = PROBE_READER.as_ref() {
            let mut ki = 0;
            while ki < 2 {
                dashmap::WOULD_BLOCK = false;
                match r.get(kb(K[ki])) {
                    Ok(g) => {
                        let got = v1(&g);
                        // a get of the key whose index entry the merge is rewriting right now blocks on
                        // the shard lock in the real DashMap: no observation at this point
                        assert!(dashmap::WOULD_BLOCK || got == PROBE_BEFORE[ki] || got == PROBE_AFTER[ki], "[C04] a get concurrent with a writer-side operation returned a value that is neither the one before nor the one after it");
                    }
                    Err(_) => assert!(false, "[C04] a get concurrent with a writer-side operation failed"),
                }
                ki += 1;
            }
        }
    }
}

/// Shape: two values on disk; the reader reads both (its maps are now old); then ONE writer-side
/// operation runs with the probe at file-system step `at` (counted from the start of the
/// operation): op 0 = put b, 1 = del a, 2 = merge of everything.
pub(crate) fn probe_shape(op: u8, at: usize) {
    mfs::__preexisting(dslot(0));
    let (va, vb): (u8, u8) = (kani::any(), kani::any());
    lay_data(dslot(0), 0, K[0], Some(va));
    lay_data(dslot(0), 0, K[1], Some(vb));
    let m: Model = [Some(va), Some(vb)];
    let Store { ctx, mut w, r } = open_store(mk_conf_thr(u64::MAX, 2, false, T_ALL));
    // age the reader's maps
    let _ = must(r.get(kb(K[0])));
    unsafe {
        PROBE_READER = Some(r);
        PROBE_BEFORE = m;
        PROBE_AFTER = m;
    }
    let base = mfs::__fs().steps;
    mfs::__fs().probe_at = base + at;
    mfs::__fs().probe = Some(probe);
    match op {
        0 => {
            let v: u8 = kani::any();
            unsafe { PROBE_AFTER[1] = Some(v) };
            must(w.put(kb(K[1]), kb(v)));
        }
        1 => {
            unsafe { PROBE_AFTER[0] = None };
            let _ = must(w.delete(kb(K[0])));
        }
        _ => {
            must(w.merge());
        }
    }
    kani::cover!(unsafe { PROBE_RAN }, "the probe ran inside the operation");
    mfs::__fs().probe = None;
    std::mem::forget((ctx, w));
}
macro_rules! probes { ($op:expr; $($name:ident = $k:expr),* $(,)?) => { $( s_harness! { fn $name() { probe_shape($op, $k) } } )* } }
probes! { 0; c04_put_k00 = 0, c04_put_k01 = 1 }
probes! { 1; c04_del_k00 = 0, c04_del_k01 = 1 }
probes! { 2; c04_merge_k02 = 2, c04_merge_k04 = 4, c04_merge_k06 = 6, c04_merge_k07 = 7, c04_merge_k08 = 8, c04_merge_k09 = 9, c04_merge_k10 = 10,
             c04_merge_k11 = 11, c04_merge_k12 = 12, c04_merge_k13 = 13, c04_merge_k14 = 14, c04_merge_k15 = 15, c04_merge_k16 = 16 }


// ------------------------------------------------------------------------------------------------
// The dual product: ONE reader-side `get` is preempted at one of ITS file-system calls (the open
// of the data file, the mmap) and a complete writer-side operation runs there.  The real
// `Reader::get` holds the DashMap read guard of its key across the file access; a merge (or a
// put / delete of the same key) that has to rewrite that index entry blocks on the shard lock until
// the get is done, so those interleavings cannot happen - the model marks them infeasible and the
// run is discarded.  Every interleaving that remains must return the value before or after the
// operation.  (A `get` that lets go of the guard before it touches the file loses exactly this
// protection: the merge re-points the entry, unlinks the file, and the open fails.)
static mut RPROBE_WRITER: Option<Writer> = None;
static mut RPROBE_OP: u8 = 0;
static mut RPROBE_RAN: bool = false;
static mut RPROBE_V: u8 = 0;
fn rprobe() {
    unsafe {
        RPROBE_RAN = true;
        if let Some(w) = RPROBE_WRITER.as_mut() {
            match RPROBE_OP {
                0 => must(w.put(kb(K[1]), kb(RPROBE_V))),
                1 => {
                    let _ = must(w.delete(kb(K[0])));
                }
                3 => must(w.put(kb(K[0]), kb(RPROBE_V))),
                _ => must(w.merge()),
            }
        }
    }
}

/// Shape: two values on disk in file 0; the reader has NOT touched file 0 yet (no cached handle, no
/// mapping: it has to open the file by name).  `get(a)` runs; before its file-system call number
/// `at` (0 = open, 1 = mmap) the writer-side operation `op` runs to completion: 0 = put b,
/// 1 = del a, 2 = merge of everything, 3 = put a.
pub(crate) fn rprobe_shape(op: u8, at: usize) {
    mfs::__preexisting(dslot(0));
    let (va, vb): (u8, u8) = (kani::any(), kani::any());
    lay_data(dslot(0), 0, K[0], Some(va));
    lay_data(dslot(0), 0, K[1], Some(vb));
    let Store { ctx, w, r } = open_store(mk_conf_thr(u64::MAX, 2, false, T_ALL));
    let v: u8 = kani::any();
    unsafe {
        RPROBE_WRITER = Some(w);
        RPROBE_OP = op;
        RPROBE_V = v;
    }
    let after: Option<u8> = match op {
        1 => None,
        3 => Some(v),
        _ => Some(va),
    };
    mfs::__fs().probe_at = mfs::__fs().steps + at;
    mfs::__fs().probe = Some(rprobe);
    unsafe { dashmap::TRACK_READ = true };
    let g = r.get(kb(K[0]));
    unsafe { dashmap::TRACK_READ = false };
    mfs::__fs().probe = None;
    let feasible = unsafe { !dashmap::INFEASIBLE };
    kani::cover!(unsafe { RPROBE_RAN }, "the writer-side operation ran inside the get");
    kani::cover!(unsafe { RPROBE_RAN } && feasible, "an interleaving the shard lock allows");
    if feasible {
        match &g {
            Ok(x) => {
                let got = v1(x);
                assert!(got == Some(va) || got == after, "[C04] a get preempted by a writer-side operation returned a value that is neither the one before nor the one after it");
            }
            Err(_) => assert!(false, "[C04] a get preempted by a writer-side operation failed"),
        }
    }
    std::mem::forget(g);
    std::mem::forget((ctx, r));
}
macro_rules! rprobes { ($op:expr; $($name:ident = $k:expr),* $(,)?) => { $( s_harness! { fn $name() { rprobe_shape($op, $k) } } )* } }
rprobes! { 0; c04_rget_putb_k00 = 0, c04_rget_putb_k01 = 1 }
rprobes! { 1; c04_rget_dela_k00 = 0 }
rprobes! { 2; c04_rget_merge_k00 = 0, c04_rget_merge_k01 = 1 }
rprobes! { 3; c04_rget_puta_k00 = 0 }
