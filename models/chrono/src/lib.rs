//! Model of the chrono calls the repository makes: `Local::now().timestamp_nanos()` and
//! `Local::now().time().hour()`.  The harness controls both values.
pub static mut NOW_NANOS: i64 = 0;
pub static mut NOW_HOUR: u32 = 0;
pub struct Local;
pub struct DateTime {
    n: i64,
    h: u32,
}
pub struct NaiveTime {
    h: u32,
}
impl Local {
    pub fn now() -> DateTime {
        unsafe { DateTime { n: NOW_NANOS, h: NOW_HOUR } }
    }
}
impl DateTime {
    pub fn timestamp_nanos(&self) -> i64 {
        self.n
    }
    pub fn time(&self) -> NaiveTime {
        NaiveTime { h: self.h }
    }
}
pub trait Timelike {
    fn hour(&self) -> u32;
}
impl Timelike for NaiveTime {
    fn hour(&self) -> u32 {
        self.h
    }
}
