//! Attribute stand-ins for the native replay build: `#[kani::proof]` keeps the harness function and
//! adds an exported entry point `__verif_native_<name>`; `unwind`, `stub`, `solver`, `should_panic`
//! are identities (stubs are a CBMC tractability device; natively the real functions run).
use proc_macro::{TokenStream, TokenTree};

#[proc_macro_attribute]
pub fn proof(_attr: TokenStream, item: TokenStream) -> TokenStream {
    let mut name = None;
    let mut prev_fn = false;
    for t in item.clone() {
        if let TokenTree::Ident(i) = &t {
            if prev_fn {
                name = Some(i.to_string());
                break;
            }
            prev_fn = i.to_string() == "fn";
        } else {
            prev_fn = false;
        }
    }
    let name = name.expect("#[kani::proof] on something that is not a fn");
    let extra: TokenStream = format!(
        "#[no_mangle] pub extern \"Rust\" fn __verif_native_{n}() {{ kani::__run({n}); }}",
        n = name
    )
    .parse()
    .unwrap();
    let mut out = item;
    out.extend(extra);
    out
}
#[proc_macro_attribute]
pub fn unwind(_attr: TokenStream, item: TokenStream) -> TokenStream {
    item
}
#[proc_macro_attribute]
pub fn stub(_attr: TokenStream, item: TokenStream) -> TokenStream {
    item
}
#[proc_macro_attribute]
pub fn solver(_attr: TokenStream, item: TokenStream) -> TokenStream {
    item
}
#[proc_macro_attribute]
pub fn should_panic(_attr: TokenStream, item: TokenStream) -> TokenStream {
    item
}
