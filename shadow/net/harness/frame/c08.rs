//! C08 — RESP encoding/decoding round-trips (filled in below).
use super::*;
