//! Sequential models of crossbeam's `AtomicCell`, `ArrayQueue` (bounded FIFO) and `Backoff`.
pub mod atomic {
    use std::cell::Cell;
    #[derive(Debug)]
    pub struct AtomicCell<T: Copy>(Cell<T>);
    unsafe impl<T: Copy + Send> Sync for AtomicCell<T> {}
    impl<T: Copy> AtomicCell<T> {
        pub fn new(t: T) -> Self {
            Self(Cell::new(t))
        }
        pub fn load(&self) -> T {
            self.0.get()
        }
        pub fn store(&self, t: T) {
            self.0.set(t)
        }
    }
}
pub mod queue {
    use std::cell::UnsafeCell;
    pub const QCAP: usize = 2;
    pub struct ArrayQueue<T> {
        cap: usize,
        q: UnsafeCell<([Option<T>; QCAP], usize)>,
    }
    impl<T> std::fmt::Debug for ArrayQueue<T> {
        fn fmt(&self, f: &mut std::fmt::Formatter<'_>) -> std::fmt::Result {
            f.write_str("ArrayQueue")
        }
    }
    unsafe impl<T: Send> Sync for ArrayQueue<T> {}
    unsafe impl<T: Send> Send for ArrayQueue<T> {}
    impl<T> ArrayQueue<T> {
        pub fn new(cap: usize) -> Self {
            assert!(cap > 0, "capacity must be non-zero");
            assert!(cap <= QCAP, "model bound: queue capacity");
            Self { cap, q: UnsafeCell::new(([None, None], 0)) }
        }
        pub fn capacity(&self) -> usize {
            self.cap
        }
        pub fn len(&self) -> usize {
            unsafe { (*self.q.get()).1 }
        }
        pub fn push(&self, t: T) -> Result<(), T> {
            let q = unsafe { &mut *self.q.get() };
            if q.1 >= self.cap {
                Err(t)
            } else {
                q.0[q.1] = Some(t);
                q.1 += 1;
                Ok(())
            }
        }
        pub fn pop(&self) -> Option<T> {
            let q = unsafe { &mut *self.q.get() };
            if q.1 == 0 {
                return None;
            }
            let r = q.0[0].take();
            let mut i = 0;
            while i + 1 < QCAP {
                q.0[i] = q.0[i + 1].take();
                i += 1;
            }
            q.1 -= 1;
            r
        }
    }
}
pub mod utils {
    /// Number of `spin` calls (a harness asserts it stays 0 in sequential runs: a spin means the
    /// pool was empty, i.e. a reader was lost).
    pub static mut SPINS: usize = 0;
    pub struct Backoff;
    impl Backoff {
        pub fn new() -> Self {
            Backoff
        }
        pub fn spin(&self) {
            unsafe {
                SPINS += 1;
                assert!(SPINS < 2, "reader pool empty in a sequential run: Handle::get would spin forever");
            }
        }
    }
}
