"""Run one Kani harness of a shadow crate and turn Kani's report into a structured result."""
import glob
import json
import os
import re
import resource
import subprocess
import time

KANI_ENV = dict(os.environ, CARGO_NET_OFFLINE="true", CARGO_TERM_COLOR="never")
# never let an inherited RUSTUP_TOOLCHAIN confuse cargo-kani's pinned toolchain
KANI_ENV.pop("RUSTUP_TOOLCHAIN", None)

BASE_ARGS = ["cargo", "kani", "-Z", "stubbing", "-Z", "unstable-options"]


def _limit(mem_gb):
    # No RLIMIT_AS: kani-driver itself maps a lot of address space while it parses CBMC's output and
    # dies with "memory allocation failed" under an address-space limit (measured: verdict lost after
    # CBMC had finished).  Memory is bounded by a watchdog on the resident set of the process group.
    def f():
        os.setsid()

    return f


def _group_rss_gb(pgid):
    try:
        out = subprocess.run(["ps", "-eo", "pgid=,rss="], capture_output=True, text=True).stdout
    except Exception:
        return 0.0
    tot = 0
    for line in out.splitlines():
        parts = line.split()
        if len(parts) == 2 and parts[0] == str(pgid):
            tot += int(parts[1])
    return tot / (1024.0 * 1024.0)


def _run(cmd, cwd, timeout, mem_gb, log):
    import signal

    t0 = time.time()
    with open(log, "w") as fh:
        p = subprocess.Popen(cmd, cwd=cwd, stdout=fh, stderr=subprocess.STDOUT, env=KANI_ENV, preexec_fn=_limit(mem_gb))
        timed_out = False
        oom = False
        while True:
            try:
                rc = p.wait(timeout=5)
                break
            except subprocess.TimeoutExpired:
                pass
            if time.time() - t0 > timeout:
                timed_out = True
            elif _group_rss_gb(p.pid) > mem_gb:
                oom = True
            if timed_out or oom:
                try:
                    os.killpg(p.pid, signal.SIGKILL)
                except ProcessLookupError:
                    pass
                p.wait()
                rc = -9
                break
        if oom:
            fh.write("\n[verif] killed by the memory watchdog: resident set above %s GB (Out of memory)\n" % mem_gb)
    return rc, timed_out, time.time() - t0


def _pretty_map(target_dir, crate_name, harness):
    pat = os.path.join(target_dir, "kani", "*", "debug", "build", crate_name, "*", "out", "*%s.pretty_name_map.json" % harness)
    cands = [p for p in glob.glob(pat) if re.search(r"\d+%s\.pretty_name_map\.json$" % re.escape(harness), p)]
    if not cands:
        cands = glob.glob(pat)
    if not cands:
        return None
    return max(cands, key=os.path.getmtime)


def unwindset_from_rules(target_dir, crate_name, harness, rules):
    """rules: list of (regex on the pretty function name, loop index, bound).  Returns the
    `--unwindset` value and the list of (pretty, loop, bound) actually matched."""
    mp = _pretty_map(target_dir, crate_name, harness)
    if mp is None or not rules:
        return "", [], mp
    with open(mp) as fh:
        names = json.load(fh)
    items = []
    matched = []
    for mangled, pretty in names.items():
        if not pretty:
            continue
        for rx, idx, bound in rules:
            if re.search(rx, pretty):
                # idx None: recursion bound (CBMC takes the bare function name)
                items.append(("%s:%d" % (mangled, bound)) if idx is None else ("%s.%d:%d" % (mangled, idx, bound)))
                matched.append((pretty, idx, bound))
    return ",".join(sorted(set(items))), matched, mp


CHECK_RE = re.compile(r"^Check (\d+): (.*)$")


def parse_report(text):
    """Parse Kani's regular output format."""
    checks = []
    cur = None
    for line in text.splitlines():
        m = CHECK_RE.match(line)
        if m:
            cur = {"id": m.group(2), "status": None, "desc": "", "loc": ""}
            checks.append(cur)
            continue
        if cur is not None:
            s = line.strip()
            if s.startswith("- Status:"):
                cur["status"] = s.split(":", 1)[1].strip()
            elif s.startswith("- Description:"):
                cur["desc"] = s.split(":", 1)[1].strip().strip('"')
            elif s.startswith("- Location:"):
                cur["loc"] = s.split(":", 1)[1].strip()
            elif s == "":
                cur = None
    res = {"checks": checks}
    m = re.search(r"^VERIFICATION:- (\w+)", text, re.M)
    res["verdict"] = m.group(1) if m else None
    m = re.search(r"^Verification Time: ([0-9.]+)s", text, re.M)
    res["verification_time_s"] = float(m.group(1)) if m else None
    m = re.search(r"\*\* (\d+) of (\d+) failed", text)
    res["failed_of"] = (int(m.group(1)), int(m.group(2))) if m else None
    m = re.search(r"\*\* (\d+) of (\d+) cover properties satisfied", text)
    res["covers_of"] = (int(m.group(1)), int(m.group(2))) if m else None
    res["compile_error"] = bool(re.search(r"^error(\[E\d+\])?:", text, re.M)) and res["verdict"] is None
    res["oom"] = ("std::bad_alloc" in text) or ("Out of memory" in text) or ("memory exhausted" in text.lower())
    return res


def classify(check):
    """kind of a failed check: 'unwind', 'model_bound', 'unsupported', 'property'."""
    d = check["desc"]
    if "unwinding assertion" in d or check["id"].find(".unwind.") >= 0:
        return "unwind"
    if "recursion unwinding assertion" in d:
        return "unwind"
    if d.startswith("model bound:") or "model bound:" in d:
        return "model_bound"
    if "is not currently supported by Kani" in d or "unsupported" in check["id"]:
        return "unsupported"
    return "property"


def run_harness(crate_dir, target_dir, crate_name, harness, unwind_rules=(), fsens=2048, timeout=900, mem_gb=14,
                extra_kani=(), extra_cbmc=(), logdir="/tmp", tag=""):
    """Returns a dict: status in {pass, fail, inconclusive}, reason, checks, covers, times, ..."""
    os.makedirs(logdir, exist_ok=True)
    base = BASE_ARGS + ["--harness", harness, "--target-dir", target_dir] + list(extra_kani)
    out = {"harness": harness, "status": "inconclusive", "reason": "", "wall_s": 0.0}
    # phase A: codegen only (gives the pretty-name map for per-loop bounds)
    logA = os.path.join(logdir, "%s%s.codegen.log" % (harness, tag))
    rc, to, wall = _run(base + ["--only-codegen"], crate_dir, 900, 14, logA)
    out["codegen_s"] = round(wall, 1)
    if rc != 0:
        with open(logA) as fh:
            t = fh.read()
        out["reason"] = "build failed (the edited tree does not compile against the harness)" if "error" in t else "codegen failed"
        out["log"] = logA
        out["build_errors"] = re.findall(r"^error.*$", t, re.M)[:5]
        return out
    uw, matched, mp = unwindset_from_rules(target_dir, crate_name, harness, unwind_rules)
    out["unwindset"] = [{"fn": p, "loop": i, "bound": b} for (p, i, b) in matched]
    cbmc = ["--max-field-sensitivity-array-size", str(fsens)] + list(extra_cbmc)
    if uw:
        cbmc += ["--unwindset", uw]
    logB = os.path.join(logdir, "%s%s.log" % (harness, tag))
    rc, to, wall = _run(base + ["--cbmc-args"] + cbmc, crate_dir, timeout, mem_gb, logB)
    out["wall_s"] = round(wall, 1)
    out["log"] = logB
    with open(logB) as fh:
        text = fh.read()
    rep = parse_report(text)
    out["verification_time_s"] = rep["verification_time_s"]
    out["n_checks"] = len(rep["checks"])
    st = {}
    for c in rep["checks"]:
        st[c["status"]] = st.get(c["status"], 0) + 1
    out["check_status_counts"] = st
    covers = [c for c in rep["checks"] if c["status"] in ("SATISFIED", "UNSATISFIABLE", "UNSATISFIED", "UNREACHABLE") and ".cover." in c["id"]]
    out["covers"] = [{"desc": c["desc"], "status": c["status"]} for c in covers]
    failed = [c for c in rep["checks"] if c["status"] == "FAILURE"]
    out["failed"] = [{"id": c["id"], "desc": c["desc"], "loc": c["loc"], "kind": classify(c)} for c in failed]
    if to:
        out["reason"] = "timeout after %ds" % timeout
        return out
    if rep["verdict"] is None:
        out["reason"] = "out of memory" if (rep["oom"] or rc in (-9, 137, -6, 134)) else ("no verdict (rc=%s)" % rc)
        if rep["compile_error"]:
            out["reason"] = "build failed"
        return out
    kinds = set(f["kind"] for f in out["failed"])
    if rep["verdict"] == "SUCCESSFUL":
        unsat = [c for c in out["covers"] if c["status"] != "SATISFIED"]
        if unsat:
            out["status"] = "inconclusive"
            out["reason"] = "vacuity witness not satisfied: " + "; ".join(c["desc"] for c in unsat)
        else:
            out["status"] = "pass"
        return out
    # FAILED
    if "property" in kinds:
        out["status"] = "fail"
        out["reason"] = "; ".join(sorted(set(f["desc"] for f in out["failed"] if f["kind"] == "property")))[:600]
    elif not out["failed"]:
        out["status"] = "inconclusive"
        out["reason"] = "CBMC failed without a verdict (out of memory or killed)"
    else:
        out["status"] = "inconclusive"
        out["reason"] = "bound exceeded: " + "; ".join(sorted(set(f["desc"] for f in out["failed"])))[:400]
    return out
