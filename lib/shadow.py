"""Assemble shadow crates from /repo's current working tree.

A shadow crate = verbatim copies of the repository's source files in the same directory layout,
our own lib.rs / Cargo.toml binding the imported crate names to the environment models, and the
harness module appended as a child of the file whose private items it must reach.  The only edit
to a copied file is the appended `#[cfg(kani)] mod verif_harness;` line.
"""
import os
import shutil
import hashlib

ROOT = os.path.dirname(os.path.dirname(os.path.abspath(__file__)))
REPO = os.environ.get("VERIF_REPO", "/repo")
MODELS = os.path.join(ROOT, "models")

APPEND = "\n#[cfg(kani)]\nmod verif_harness;\n"

# crate -> (list of (repo-relative source, dest-relative) copies, {file to append to: harness dir name})
CRATES = {
    "store": {
        "copy": ["src/shutdown.rs", "src/storage.rs", "src/storage"],
        "append": {"src/storage/bitcask.rs": "src/storage/bitcask"},
    },
    "log": {
        "copy": ["src/shutdown.rs", "src/storage.rs", "src/storage"],
        "append": {"src/storage/bitcask.rs": "src/storage/bitcask"},
    },
    "net": {
        "copy": ["src/shutdown.rs", "src/storage.rs", "src/net.rs", "src/net"],
        "strip": {"src/storage.rs": ["pub mod bitcask;"]},
        "append": {"src/net/frame.rs": "src/net/frame", "src/net/command.rs": "src/net/command"},
    },
}


def _copy(src, dst):
    if os.path.isdir(src):
        shutil.copytree(src, dst, dirs_exist_ok=True)
    else:
        os.makedirs(os.path.dirname(dst), exist_ok=True)
        shutil.copy2(src, dst)


def source_digest(crate):
    """sha256 over the repository files copied into `crate` (recorded in the evidence)."""
    h = hashlib.sha256()
    for rel in CRATES[crate]["copy"]:
        p = os.path.join(REPO, rel)
        files = []
        if os.path.isdir(p):
            for d, _, fs in os.walk(p):
                files += [os.path.join(d, f) for f in fs]
        else:
            files = [p]
        for f in sorted(files):
            h.update(f.encode())
            with open(f, "rb") as fh:
                h.update(fh.read())
    return h.hexdigest()[:16]


def assemble(crate, dest):
    """Create the shadow crate `crate` under `dest` from REPO's working tree."""
    spec = CRATES[crate]
    tdir = os.path.join(ROOT, "shadow", crate)
    if os.path.exists(dest):
        shutil.rmtree(dest)
    os.makedirs(os.path.join(dest, "src"))
    for rel in spec["copy"]:
        _copy(os.path.join(REPO, rel), os.path.join(dest, rel))
    for rel, lines in spec.get("strip", {}).items():
        fp = os.path.join(dest, rel)
        with open(fp) as fh:
            kept = [l for l in fh.read().splitlines(True) if l.strip() not in lines]
        with open(fp, "w") as fh:
            fh.writelines(kept)
    # our lib.rs (mirrors /repo/src/lib.rs minus what no property anchors)
    shutil.copy2(os.path.join(tdir, "lib.rs"), os.path.join(dest, "src", "lib.rs"))
    # storage.rs in the net crate must not pull in the bitcask engine
    # harness modules
    hdir = os.path.join(tdir, "harness")
    for target, moddir in spec["append"].items():
        tpath = os.path.join(dest, target)
        with open(tpath, "a") as fh:
            fh.write(APPEND)
        stem = os.path.basename(moddir)  # e.g. "bitcask", "frame"
        # harness/<stem>/verif_harness.rs + harness/<stem>/verif_harness/*.rs ; for a crate with a
        # single append target the files may live directly in harness/
        src_root = os.path.join(hdir, stem) if os.path.isdir(os.path.join(hdir, stem)) else hdir
        os.makedirs(os.path.join(dest, moddir, "verif_harness"), exist_ok=True)
        for f in sorted(os.listdir(src_root)):
            sp = os.path.join(src_root, f)
            if not f.endswith(".rs"):
                continue
            if f == "verif_harness.rs":
                shutil.copy2(sp, os.path.join(dest, moddir, "verif_harness.rs"))
            else:
                shutil.copy2(sp, os.path.join(dest, moddir, "verif_harness", f))
    with open(os.path.join(tdir, "Cargo.toml.in")) as fh:
        toml = fh.read().replace("@MODELS@", MODELS)
    with open(os.path.join(dest, "Cargo.toml"), "w") as fh:
        fh.write(toml)
    lock = os.path.join(tdir, "Cargo.lock")
    if os.path.exists(lock):
        shutil.copy2(lock, os.path.join(dest, "Cargo.lock"))
    os.makedirs(os.path.join(dest, ".cargo"))
    with open(os.path.join(dest, ".cargo", "config.toml"), "w") as fh:
        fh.write("[net]\noffline = true\n")
    return dest


if __name__ == "__main__":
    import sys

    print(assemble(sys.argv[1], sys.argv[2]))
